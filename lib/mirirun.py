"""Run lyrun under Miri (UB interpreter) on small programs. Stacked Borrows and
validation are disabled for the reasons in DESIGN.md §1.2; what remains
checked: use-after-free, out-of-bounds, double free, dealloc layout != alloc
layout, misalignment, uninitialised data in a decision."""
import os
import re
import subprocess
import sys

sys.path.insert(0, '/verif/lib')
import vlib

FLAGS = '-Zmiri-disable-isolation -Zmiri-disable-stacked-borrows -Zmiri-disable-validation'


def prepare():
    """build once so the parallel runs do not queue on the build lock"""
    env = dict(os.environ)
    env['MIRIFLAGS'] = FLAGS
    env['CARGO_TARGET_DIR'] = os.path.join(vlib.TARGET, 'miri')
    env['CARGO_NET_OFFLINE'] = 'true'
    env.pop('RUSTFLAGS', None)
    lock = os.path.join(vlib.HARNESS, 'Cargo.lock')
    if not os.path.exists(lock):
        import shutil
        shutil.copy(os.path.join(vlib.REPO, 'Cargo.lock'), lock)
    p = subprocess.run(['cargo', '+nightly', 'miri', 'run', '--offline', '--features', 'sysalloc', '--bin', 'lyrun',
                        '--', '--help-does-not-exist'], cwd=vlib.HARNESS, env=env, capture_output=True, text=True,
                       timeout=1800)
    if 'unknown option' not in p.stderr and 'usage' not in p.stderr:
        if 'error: could not compile' in p.stderr or 'error[' in p.stderr:
            raise vlib.HarnessError('miri build failed:\n' + p.stderr[-1500:])
    return True


def run(args):
    path, opts, timeout = args
    env = dict(os.environ)
    env['MIRIFLAGS'] = FLAGS
    env['CARGO_TARGET_DIR'] = os.path.join(vlib.TARGET, 'miri')
    env['CARGO_NET_OFFLINE'] = 'true'
    env.pop('RUSTFLAGS', None)
    cmd = ['cargo', '+nightly', 'miri', 'run', '--offline', '--features', 'sysalloc', '--bin', 'lyrun', '--'] + \
        list(opts) + [path]
    try:
        p = subprocess.run(cmd, cwd=vlib.HARNESS, env=env, capture_output=True, text=True, timeout=timeout,
                           errors='replace')
    except subprocess.TimeoutExpired:
        return {'path': path, 'outcome': 'timeout', 'stdout': '', 'ub': None}
    err = p.stderr
    ub = None
    m = re.search(r'error: Undefined Behavior: ([^\n]*)', err)
    if m:
        loc = re.search(r'-->\s*([^\n]*)', err[m.start():])
        ub = m.group(1)[:200] + (' @ ' + loc.group(1)[:120] if loc else '')
    elif 'error: ' in err and 'VERIF-STATS' not in err and 'panicked' not in err and p.returncode not in (0, 1):
        m2 = re.search(r'\nerror: ([^\n]*)', err)
        if m2 and 'unsupported operation' in m2.group(1):
            return {'path': path, 'outcome': 'unsupported', 'stdout': p.stdout, 'ub': None, 'why': m2.group(1)[:200]}
    return {'path': path, 'outcome': 'ub' if ub else ('ok' if 'VERIF-STATS' in err else 'other:%s' % p.returncode),
            'stdout': p.stdout, 'ub': ub, 'stderr_tail': err[-800:] if ub or 'VERIF-STATS' not in err else ''}
