"""lyverify: an offline bytecode verifier over compile dumps (hook H5).

Independent of laythe_vm/src/byte_code.rs: the stack effects come from what
ops.rs pops/pushes (see absmach / DESIGN appendix A), instruction lengths and
operand layouts are this file's own table, and the opcode numbering is read
from the dump's module record (so a renumbering is followed, not mis-decoded)."""
import struct
from absmach import parse_debug, show, label_of

# own length table (bytes once encoded)
LEN = {}
for n in ('Return Negate Add Subtract Multiply Divide Not Nil True False Channel BufferedChannel Receive Send Drop Dup '
          'EmptyBox FillBox PopHandler FinishUnwind ContinueUnwind GetError Raise Inherit Equal NotEqual Greater '
          'GreaterEqual Less LessEqual').split():
    LEN[n] = 1
for n in 'Constant Launch DropN Box GetBox SetBox GetLocal SetLocal GetCapture SetCapture Call'.split():
    LEN[n] = 2
for n in ('And Or ConstantLong List Tuple Map Interpolate IterNext IterCurrent Import Export LoadGlobal GetModSym '
          'SetModSym GetPropByName SetPropByName GetProp SetProp JumpIfFalse Jump Loop CheckHandler Closure Method '
          'Field StaticMethod Class GetSuper').split():
    LEN[n] = 3
for n in 'Invoke SuperInvoke PropertySlot InvokeSlot'.split():
    LEN[n] = 4
for n in 'ImportSym DeclareModSym PushHandler'.split():
    LEN[n] = 5
LEN['CaptureLocal'] = 2
LEN['CaptureEnclosing'] = 2
LEN['Label'] = 0
LEN['ArgumentDelimiter'] = 0

# (pops, pushes) on the fall-through edge
def effect(ins):
    name, a, b = ins
    if name in ('Nil', 'True', 'False', 'Constant', 'ConstantLong', 'Channel', 'Dup', 'GetLocal', 'GetBox',
                'GetCapture', 'GetModSym', 'LoadGlobal', 'GetError', 'EmptyBox', 'Closure', 'Class', 'Import',
                'ImportSym'):
        return (1 if name == 'Dup' else 0, 2 if name == 'Dup' else 1)
    if name in ('Negate', 'Not', 'BufferedChannel', 'Receive', 'IterNext', 'IterCurrent', 'GetProp', 'GetPropByName'):
        return (1, 1)
    if name in ('SetLocal', 'SetBox', 'SetCapture', 'SetModSym', 'Field'):
        return (1, 1)
    if name == 'Export':
        return (0, 0)
    if name == 'Box':
        return (0, 0)
    if name in ('DeclareModSym', 'PushHandler', 'PopHandler', 'FinishUnwind', 'Jump', 'Loop', 'Label',
                'ArgumentDelimiter', 'PropertySlot', 'InvokeSlot', 'CaptureLocal', 'CaptureEnclosing'):
        return (0, 0)
    if name == 'Inherit':
        return (2, 2)
    if name in ('Add', 'Subtract', 'Multiply', 'Divide', 'Equal', 'NotEqual', 'Less', 'LessEqual', 'Greater',
                'GreaterEqual'):
        return (2, 1)
    if name == 'Drop':
        return (1, 0)
    if name == 'FillBox':
        return (2, 1)
    if name in ('SetProp', 'SetPropByName'):
        return (2, 1)
    if name in ('Method', 'StaticMethod'):
        return (2, 1)
    if name == 'GetSuper':
        return (2, 1)
    if name == 'Send':
        return (2, 1)
    if name == 'DropN':
        return (a, 0)
    if name in ('List', 'Tuple', 'Interpolate'):
        return (a, 1)
    if name == 'Map':
        return (2 * a, 1)
    if name == 'Call':
        return (a + 1, 1)
    if name == 'Invoke':
        return (b + 1, 1)
    if name == 'SuperInvoke':
        return (b + 2, 1)
    if name == 'Launch':
        return (a + 1, 0)
    if name in ('JumpIfFalse', 'CheckHandler'):
        return (1, 0)
    if name in ('And', 'Or'):
        return (1, 0)
    if name in ('Return', 'Raise'):
        return (1, 0)
    if name == 'ContinueUnwind':
        return (0, 0)
    raise ValueError('no stack effect for ' + name)


NAME_CONST = {'GetPropByName': 0, 'SetPropByName': 0, 'Method': 0, 'Field': 0, 'StaticMethod': 0, 'Class': 0,
              'GetSuper': 0, 'Export': 0, 'LoadGlobal': 0, 'DeclareModSym': 0, 'IterNext': 0, 'IterCurrent': 0,
              'Invoke': 0, 'SuperInvoke': 0}


def verify_fun(f, ops_index=None, cache_limits=None, seen_slots=None):
    """Returns a list of violation strings for one dumped function."""
    out = []
    code = [parse_debug(x) for x in f['post']]
    params = f['params']
    max_slots = f['max_slots']
    ncaps = f['captures']
    consts = f['consts']
    name = f['name']

    # ---- labels ---------------------------------------------------------
    pos = {}
    for i, ins in enumerate(code):
        if ins[0] == 'Label':
            if ins[1] in pos:
                out.append('label %d defined twice' % ins[1])
            pos[ins[1]] = i
    offsets = []
    off = 0
    for ins in code:
        offsets.append(off)
        if ins[0] not in LEN:
            # an instruction this verifier has no table entry for: no verdict (the caller counts it inconclusive)
            raise ValueError('lyverify has no table entry for instruction ' + ins[0])
        off += LEN[ins[0]]
    total = off

    # ---- per instruction static operands -----------------------------------
    for i, ins in enumerate(code):
        n, a, b = ins
        l = label_of(ins)
        if l is not None:
            if l not in pos:
                out.append('%s at %d refers to missing label %d' % (n, i, l))
                continue
            target = offsets[pos[l]]
            end = offsets[i] + LEN[n]
            if n == 'Loop':
                if target > offsets[i]:
                    out.append('Loop at %d jumps forward' % i)
                dist = end - target
            else:
                if target < end:
                    out.append('%s at %d jumps backward (unsigned distance would wrap)' % (n, i))
                dist = target - end
            if dist > 65535:
                out.append('%s at %d: distance %d does not fit the operand' % (n, i, dist))
            if target > total:
                out.append('%s at %d jumps outside the function' % (n, i))
        if n in ('Constant', 'ConstantLong'):
            if a >= len(consts):
                out.append('%s(%d) out of %d constants' % (n, a, len(consts)))
        if n in NAME_CONST:
            if a >= len(consts):
                out.append('%s name slot %d out of %d constants' % (n, a, len(consts)))
            elif not consts[a].startswith('str:'):
                out.append('%s name slot %d is %s, not a string' % (n, a, consts[a][:20]))
        if n in ('Import', 'ImportSym'):
            if a >= len(consts) or not consts[a].startswith('list:'):
                out.append('%s path slot %d is not a list constant' % (n, a))
            if n == 'ImportSym' and (b >= len(consts) or not consts[b].startswith('str:')):
                out.append('ImportSym name slot %d is not a string constant' % b)
        if n == 'Closure':
            if a >= len(consts) or not consts[a].startswith('fun:'):
                out.append('Closure(%d) does not name a function constant' % a)
            else:
                want = int(consts[a].split(':')[1])
                k = 0
                while i + 1 + k < len(code) and code[i + 1 + k][0] in ('CaptureLocal', 'CaptureEnclosing'):
                    k += 1
                if k != want:
                    out.append('Closure(%d) is followed by %d capture operands but the function captures %d' % (
                        a, k, want))
        if n in ('GetCapture', 'SetCapture', 'CaptureEnclosing'):
            if a >= ncaps:
                out.append('%s(%d) but the function has %d captures' % (n, a, ncaps))
        if n in ('CaptureLocal', 'CaptureEnclosing') and (i == 0 or code[i - 1][0] not in (
                'Closure', 'CaptureLocal', 'CaptureEnclosing')):
            out.append('stray capture operand at %d' % i)
        if n == 'PropertySlot' and (i == 0 or code[i - 1][0] not in ('GetPropByName', 'SetPropByName')):
            out.append('stray PropertySlot at %d' % i)
        if n in ('GetPropByName', 'SetPropByName') and (i + 1 >= len(code) or code[i + 1][0] != 'PropertySlot'):
            out.append('%s at %d without a PropertySlot' % (n, i))
        if n == 'InvokeSlot' and (i == 0 or code[i - 1][0] not in ('Invoke', 'SuperInvoke')):
            out.append('stray InvokeSlot at %d' % i)
        if n in ('Invoke', 'SuperInvoke') and (i + 1 >= len(code) or code[i + 1][0] != 'InvokeSlot'):
            out.append('%s at %d without an InvokeSlot' % (n, i))

    # ---- depth over the CFG ------------------------------------------------
    base = 1 + params
    depth_at = [None] * (len(code) + 1)
    work = [(0, base)]
    max_depth = base
    while work:
        i, d = work.pop()
        if i >= len(code):
            if i == len(code):
                out.append('control falls off the end of %s' % name)
            continue
        if depth_at[i] is not None:
            if depth_at[i] != d:
                out.append('depth mismatch at %d (%s): %d vs %d' % (i, show(code[i]), depth_at[i], d))
            continue
        depth_at[i] = d
        ins = code[i]
        n, a, b = ins
        pops, pushes = effect(ins)
        if d - pops < base and n not in ('Return',):
            out.append('%s at %d pops below the callee and parameter slots (depth %d, pops %d, base %d)' % (
                n, i, d, pops, base))
        if n == 'Return' and d < base + 1:
            out.append('Return at %d without a value (depth %d, base %d)' % (i, d, base))
        if n in ('GetLocal', 'SetLocal', 'GetBox', 'SetBox', 'Box', 'CaptureLocal'):
            lim = d - (1 if n in ('SetLocal', 'SetBox') else 0)
            if a >= d:
                out.append('%s(%d) at %d addresses a slot at or above the depth %d' % (n, a, i, d))
        nd = d - pops + pushes
        max_depth = max(max_depth, d, nd)
        if n in ('Return', 'Raise', 'ContinueUnwind'):
            continue
        if n in ('Jump', 'Loop'):
            if a in pos:
                work.append((pos[a], d))
            continue
        if n in ('JumpIfFalse', 'CheckHandler'):
            if a in pos:
                work.append((pos[a], d - 1))
            work.append((i + 1, d - 1))
            continue
        if n in ('And', 'Or'):
            if a in pos:
                work.append((pos[a], d))
            work.append((i + 1, d - 1))
            continue
        if n == 'PushHandler':
            if a != d:
                out.append('PushHandler at %d records depth %d but the live depth is %d' % (i, a, d))
            if b in pos:
                work.append((pos[b], a))
            work.append((i + 1, d))
            continue
        work.append((i + 1, nd))
    reserve = 1 + params + max_slots
    if max_depth > reserve:
        out.append('maximum depth %d exceeds the reservation %d (1 + %d params + max_slots %d)' % (
            max_depth, reserve, params, max_slots))

    # ---- encoded form ------------------------------------------------------
    if ops_index is not None:
        out.extend(verify_encoding(f, code, offsets, pos, ops_index, cache_limits, seen_slots))
    return out, max_depth, sum(1 for x in depth_at if x is not None)


def verify_encoding(f, code, offsets, pos, ops_index, cache_limits, seen_slots):
    out = []
    raw = bytes(f['code'])
    lines = f['lines']
    post_lines = f['post_lines']
    if len(lines) != len(raw):
        out.append('line table length %d != code length %d' % (len(lines), len(raw)))
        return out
    exp = bytearray()
    wild = []      # byte positions that hold cache ids
    for i, ins in enumerate(code):
        n, a, b = ins
        start = len(exp)
        if n in ('Label', 'ArgumentDelimiter'):
            continue
        if n in ('CaptureLocal', 'CaptureEnclosing'):
            exp += bytes([0, 0])
            got = raw[start:start + 2]
            tag = 0 if n == 'CaptureLocal' else 1
            if len(got) == 2 and not ((got[0] == tag and got[1] == a) or (got[1] == tag and got[0] == a)):
                out.append('capture operand at instruction %d encodes %r, expected tag %d index %d' % (
                    i, list(got), tag, a))
            wild += [start, start + 1]
        elif n in ('PropertySlot', 'InvokeSlot'):
            exp += bytes(4)
            wild += list(range(start, start + 4))
            if len(raw) >= start + 4:
                slot = struct.unpack('<I', raw[start:start + 4])[0]
                kind = 'property' if n == 'PropertySlot' else 'invoke'
                if seen_slots is not None:
                    if (kind, slot) in seen_slots:
                        out.append('%s cache slot %d used by two sites' % (kind, slot))
                    seen_slots.add((kind, slot))
                f.setdefault('_slots', []).append((kind, slot))
        else:
            if n not in ops_index:
                out.append('opcode %s missing from the vm opcode table' % n)
                return out
            exp.append(ops_index[n])
            l = label_of(ins)
            if n == 'PushHandler':
                target = offsets[pos[b]] if b in pos else 0
                exp += struct.pack('<H', a & 0xffff) + struct.pack('<H', (target - (offsets[i] + 5)) & 0xffff)
            elif l is not None:
                target = offsets[pos[l]] if l in pos else 0
                end = offsets[i] + 3
                dist = (end - target) if n == 'Loop' else (target - end)
                exp += struct.pack('<H', dist & 0xffff)
            elif n in ('ImportSym', 'DeclareModSym'):
                exp += struct.pack('<H', a) + struct.pack('<H', b)
            elif n in ('Invoke', 'SuperInvoke'):
                exp += struct.pack('<H', a) + bytes([b])
            elif LEN[n] == 2:
                exp.append(a & 0xff)
            elif LEN[n] == 3:
                exp += struct.pack('<H', a & 0xffff)
        for k in range(start, len(exp)):
            if k < len(lines) and i < len(post_lines) and lines[k] != post_lines[i]:
                out.append('byte %d of instruction %d (%s) has line %d, instruction line is %d' % (
                    k, i, show(ins), lines[k], post_lines[i]))
                break
    if len(exp) != len(raw):
        out.append('encoded length %d but the symbolic stream encodes to %d bytes' % (len(raw), len(exp)))
        return out
    wild = set(wild)
    for k in range(len(raw)):
        if k in wild:
            continue
        if raw[k] != exp[k]:
            out.append('encoded byte %d is %d, expected %d (jump targets / operands disagree with the symbolic '
                       'stream)' % (k, raw[k], exp[k]))
            break
    return out
