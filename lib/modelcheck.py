"""Generic driver for checks of the shape: generate AST -> reference model ->
run the printed text on several build configurations -> compare."""
import hashlib
import os
import random
import sys
import zlib

sys.path.insert(0, '/verif/lib')
sys.path.insert(0, '/verif/gen')
import vlib
import diffrun
import lyast

_CTX = {}


def _one(args):
    seed, idx = args
    ctx = _CTX
    rng = random.Random((seed << 21) ^ (idx * 40503) ^ zlib.crc32(ctx['prop'].encode()))
    try:
        case = ctx['gen'](rng)
    except Exception as e:
        return {'idx': idx, 'generr': repr(e)}
    if case is None:
        return {'idx': idx, 'generr': 'none'}
    stmts = case['stmts']
    m = diffrun.model_run(stmts, max_steps=ctx.get('model_steps', 400000))
    if m is None or 'refused' in m:
        return {'idx': idx, 'refused': (m or {}).get('refused', '?')}
    texts = []
    if ctx.get('layouts', 1) > 1:
        texts.append(lyast.to_source(stmts))
        for k in range(ctx['layouts'] - 1):
            texts.append(lyast.to_source(stmts, random.Random(rng.random()), parens=0.1, comments=0.15, blank=0.15))
    else:
        texts.append(lyast.to_source(stmts))
    # line numbers are assigned at print time: models that report lines must run after printing
    if ctx.get('rerun_model_after_print'):
        m = diffrun.model_run(stmts, max_steps=ctx.get('model_steps', 400000))
    mism = []
    evals = 0
    stats_sum = {}
    for ti, text in enumerate(texts):
        c = {'id': 'p%d_%d' % (idx, ti), 'files': {'main.lay': text}, 'main': 'main.lay', 'expected': m,
             'runs': ctx['runs'], 'extra_check': ctx.get('extra_check')}
        mm, results = diffrun.run_case(c, ctx['bins'], ctx['work'], timeout=ctx.get('timeout', 30))
        evals += len(results)
        for cfg, opts, r in results:
            if r.stats:
                for k in ctx.get('stat_keys', ()):
                    v = r.stats.get(k)
                    if isinstance(v, (int, float)):
                        stats_sum[k] = stats_sum.get(k, 0) + v
        for x in mm:
            x.update({'text': text, 'expected': {'out': m['out'][-40:], 'outcome': m['outcome']}})
            mism.append(x)
    shape = hashlib.sha1(texts[0].encode()).hexdigest()[:16]
    for x in mism:
        if x['kind'] == 'violation' and case.get('sig_prefix'):
            x['why'] = case['sig_prefix'] + x['why']
    return {'idx': idx, 'mism': mism, 'evals': evals, 'shape': shape, 'tags': sorted(case.get('tags', ())),
            'nontrivial': case.get('nontrivial', True) and m['steps'] > 20, 'sample': texts[0][:700],
            'outcome': m['outcome'], 'unwinds': m['unwinds'], 'calls': m['calls'], 'out_lines': len(m['out']),
            'stats': stats_sum}


def run(prop, gen, tier, runs, rule, n_quick, n_thorough, cfgs=('dbg', 'rel'), layouts=1, stat_keys=(),
        requires=(), extra_check=None, timeout=30, model_steps=400000, technique_note='', post=None):
    chk = vlib.Check(prop, tier)
    n = int(os.environ.get('VERIF_N', '0')) or (n_quick if tier == 'quick' else n_thorough)
    try:
        bins = {c: vlib.build(c)['lyrun'] for c in cfgs}
    except vlib.HarnessError as e:
        sys.stderr.write(str(e) + '\n')
        return 2
    _CTX.update({'prop': prop, 'gen': gen, 'runs': runs, 'bins': bins, 'work': vlib.workdir(prop), 'layouts': layouts,
                 'stat_keys': stat_keys, 'extra_check': extra_check, 'timeout': timeout, 'model_steps': model_steps})
    if hasattr(chk, 'run_witnesses'):
        chk.run_witnesses(bins[cfgs[0]])
    res = vlib.pmap(_one, [(chk.seed, i) for i in range(n)], chunksize=4)
    tags = {}
    for r in res:
        if 'generr' in r:
            chk.count('generator_errors')
            chk.inconclusive.append('generator error: ' + r['generr'][:100])
            continue
        if 'refused' in r:
            chk.count('model_refused')
            chk.count('refused: ' + r['refused'][:50])
            continue
        chk.evaluations += r['evals']
        chk.count('programs')
        chk.count('outcome ' + r['outcome'])
        chk.count('model_unwinds', r['unwinds'])
        chk.count('model_calls', r['calls'])
        chk.count('stdout_lines', r['out_lines'])
        for k, v in r['stats'].items():
            chk.count(k, v)
        for t in r['tags']:
            tags[t] = tags.get(t, 0) + 1
        if r['nontrivial']:
            chk.distinct.add(r['shape'])
        chk.sample(r['sample'], limit=3)
        for m in r['mism']:
            if m['kind'] == 'inconclusive':
                chk.inconclusive.append(m['why'])
                continue
            chk.violation(m['why'], {'main.lay': m['text']},
                          {'cfg': m['cfg'], 'opts': m['opts'], 'expected': m['expected'], 'observed': m['res']})
    chk.extra['feature_tags'] = tags
    chk.rule = rule
    # generator errors are a harness problem, never a verdict
    chk.inconclusive = [x for x in chk.inconclusive if not x.startswith('generator error')] + \
        [x for x in chk.inconclusive if x.startswith('generator error')][:max(0, int(0.02 * n))]
    chk.require('programs', chk.counters.get('programs', 0), n // 2)
    for key, minimum_q, minimum_t in requires:
        chk.require(key, chk.counters.get(key, 0), minimum_q if tier == 'quick' else minimum_t)
    if post is not None:
        post(chk, bins, tier)
    return chk.finish()
