"""Self-differential driver: the same program under a baseline configuration
and under variants the property declares invisible (collection schedule,
cache switch, value representation). No reference model is involved, so it
applies to every workload we have."""
import hashlib
import os
import random
import re
import sys
import zlib

sys.path.insert(0, '/verif/lib')
sys.path.insert(0, '/verif/gen')
import vlib
import corpus

ADDR = re.compile(r'0x[0-9a-fA-F]{4,}')
PTR = re.compile(r'Pointer \{ addr: [^}]*\}')

_CTX = {}

GEN_KINDS = ('core', 'scope', 'classes', 'exc', 'chan', 'opcover', 'natives', 'strings', 'alias', 'gcstress',
             'dynclasses', 'numbers', 'mixins')


def available_kinds(wanted=GEN_KINDS):
    return tuple(k for k in wanted if k == 'core' or os.path.exists('/verif/gen/gen_%s.py' % k))


def norm(text):
    return PTR.sub('PTR', ADDR.sub('0xADDR', text))


def observe(r):
    """what a user can see: outcome, stdout, and the final error line"""
    last = ''
    if r.outcome.startswith('error:'):
        lines = [l for l in r.err.strip().split('\n') if l.strip()]
        last = lines[-1] if lines else ''
    return (r.outcome, norm(r.out), norm(last))


def _one(job):
    ctx = _CTX
    name, path, cwd = job
    base_cfg, base_opts = ctx['base']
    steps = ['--steps', str(ctx.get('steps', 20_000_000))]
    b = vlib.lyrun(ctx['bins'][base_cfg], path, list(base_opts) + steps, timeout=ctx['timeout'], cwd=cwd)
    out = {'name': name, 'path': path, 'base_outcome': b.outcome, 'mism': [], 'evals': 1, 'stats': {}, 'skipped': None}
    if b.outcome in ('timeout', 'harness', 'steps'):
        out['skipped'] = 'baseline ' + b.outcome
        return out
    if ctx.get('skip_baseline_crash', True) and vlib.is_crash(b.outcome):
        # a crash with everything off is not this property's business (C16 owns it)
        out['skipped'] = 'baseline crash ' + b.outcome
        return out
    want = observe(b)
    allocs = (b.stats or {}).get('allocs', 0)
    variants = list(ctx['variants'])
    if ctx.get('point_sweeps') and allocs > 0:
        rng = random.Random(zlib.crc32(name.encode()) ^ ctx['seed'])
        k = ctx['point_sweeps']
        pts = sorted(set(rng.randint(1, allocs) for _ in range(k)))
        for p in pts:
            variants.append((ctx['point_cfg'], ['--gc', 'points:%d' % p, '--no-stock'] + ctx.get('point_extra', [])))
        if allocs > 4:
            many = sorted(set(rng.randint(1, allocs) for _ in range(min(40, allocs // 2))))
            variants.append((ctx['point_cfg'], ['--gc', 'points:' + ','.join(map(str, many)), '--no-stock', '--sweep', 'alt']))
    for cfg, opts in variants:
        r = vlib.lyrun(ctx['bins'][cfg], path, list(opts) + steps, timeout=ctx['timeout'], cwd=cwd)
        out['evals'] += 1
        if r.stats:
            for key in ctx['stat_keys']:
                v = r.stats.get(key)
                if isinstance(v, (int, float)):
                    out['stats'][key] = out['stats'].get(key, 0) + v
        if r.outcome in ('timeout', 'harness'):
            out['mism'].append({'kind': 'inconclusive', 'why': '%s %s %s' % (r.outcome, cfg, path)})
            continue
        problem = None
        mon = [v for v in (r.stats or {}).get('violations', []) if ctx['monitor_filter'](v)]
        if mon:
            problem = 'monitor: ' + '; '.join(mon[:2])
        elif r.stats and (r.stats.get('h_poison_damage') or 0) > 0:
            problem = 'monitor: write into freed memory (quarantine poison damaged)'
        else:
            got = observe(r)
            if got != want:
                if got[0] != want[0]:
                    problem = 'outcome differs: %s -> %s %s' % (want[0], got[0], r.detail)
                elif got[1] != want[1]:
                    a, bb = want[1].split('\n'), got[1].split('\n')
                    i = 0
                    while i < len(a) and i < len(bb) and a[i] == bb[i]:
                        i += 1
                    problem = 'stdout differs at line %d: %r -> %r' % (i + 1, a[i] if i < len(a) else None,
                                                                       bb[i] if i < len(bb) else None)
                else:
                    problem = 'error line differs: %r -> %r' % (want[2], got[2])
        if problem:
            out['mism'].append({'kind': 'violation', 'cfg': cfg, 'opts': list(opts), 'why': problem,
                                'res': r.brief(), 'base': {'outcome': b.outcome, 'stdout': b.out[-1500:]}})
    return out


def run(prop, tier, base, variants, rule, n_gen_quick, n_gen_thorough, cfgs, stat_keys=(), requires=(),
        kinds=None, point_sweeps=0, point_cfg='dbg', point_extra=(), timeout=60, monitor_filter=None,
        include_fixtures=True, extra_sources=None, post=None, skip_baseline_crash=True):
    chk = vlib.Check(prop, tier)
    n_gen = int(os.environ.get('VERIF_N', '0')) or (n_gen_quick if tier == 'quick' else n_gen_thorough)
    try:
        bins = {c: vlib.build(c)['lyrun'] for c in cfgs}
    except vlib.HarnessError as e:
        sys.stderr.write(str(e) + '\n')
        return 2
    work = vlib.workdir(prop)
    kinds = available_kinds(kinds or GEN_KINDS)
    _CTX.update({'bins': bins, 'base': base, 'variants': variants, 'timeout': timeout, 'stat_keys': stat_keys,
                 'point_sweeps': point_sweeps, 'point_cfg': point_cfg, 'point_extra': list(point_extra),
                 'seed': chk.seed, 'skip_baseline_crash': skip_baseline_crash,
                 'monitor_filter': monitor_filter or (lambda v: True)})
    chk.run_witnesses(bins[cfgs[0]])
    jobs = []
    if include_fixtures:
        for p, e in corpus.fixture_list():
            if e != 'CompileError':
                jobs.append(('fixture:' + os.path.basename(p), p, os.path.dirname(p)))
    gdir = os.path.join(work, 'gen')
    os.makedirs(gdir, exist_ok=True)
    for name, text in corpus.generated_sources(chk.seed, n_gen, kinds):
        p = os.path.join(gdir, name + '.lay')
        with open(p, 'w') as fh:
            fh.write(text)
        jobs.append((name, p, gdir))
    for name, text in (extra_sources or []):
        p = os.path.join(gdir, name + '.lay')
        with open(p, 'w') as fh:
            fh.write(text)
        jobs.append((name, p, gdir))
    res = vlib.pmap(_one, jobs, chunksize=2)
    for r in res:
        chk.evaluations += r['evals']
        if r['skipped']:
            chk.count('skipped: ' + r['skipped'].split(' ')[0] + ' ' + r['skipped'].split(' ')[1])
            continue
        chk.count('programs')
        chk.count('base outcome ' + r['base_outcome'].split(':')[0])
        for k, v in r['stats'].items():
            chk.count(k, v)
        if r['stats'].get(stat_keys[0] if stat_keys else '', 1) > 0:
            chk.distinct.add(r['name'])
        for m in r['mism']:
            if m['kind'] == 'inconclusive':
                chk.inconclusive.append(m['why'])
                continue
            src = open(r['path']).read() if os.path.exists(r['path']) else ''
            chk.violation(m['why'], {'main.lay': src}, {'program': r['name'], 'path': r['path'], 'cfg': m['cfg'],
                                                       'opts': m['opts'], 'observed': m['res'], 'baseline': m['base']})
    chk.rule = rule
    chk.extra['generator_kinds'] = list(kinds)
    chk.samples = [r['name'] for r in res[:400:80]] or ['(none)']
    chk.require('programs', chk.counters.get('programs', 0), 100)
    for key, mq, mt in requires:
        chk.require(key, chk.counters.get(key, 0), mq if tier == 'quick' else mt)
    if post is not None:
        post(chk, bins, tier)
    return chk.finish()
