"""Abstract machines over Laythe's symbolic bytecode.

Instructions are tuples (name, a, b). Two uses:
  * symbolic execution (C12): run a sequence from an entry point with an
    unknown stack and unknown variable contents, producing the list of
    observable events, the final stack and the final variable store;
  * depth analysis over the CFG (C06).

The stack-effect table below is written from what laythe_vm/src/vm/ops.rs
pops and pushes (DESIGN.md appendix A), not from byte_code.rs."""
import re

DEBUG_RE = re.compile(r'^([A-Za-z]+)(?:\((.*)\))?$')


def parse_debug(s):
    """Parse the {:?} form of SymbolicByteCode used in compile dumps."""
    m = DEBUG_RE.match(s)
    if not m:
        raise ValueError('cannot parse instruction ' + s)
    name, rest = m.group(1), m.group(2)
    if rest is None:
        return (name, None, None)
    if name == 'CaptureIndex':
        m2 = re.match(r'^(Local|Enclosing)\((\d+)\)$', rest)
        return ('Capture' + m2.group(1), int(m2.group(2)), None)
    nums = [int(x) for x in re.findall(r'\d+', rest)]
    if len(nums) == 1:
        return (name, nums[0], None)
    if len(nums) == 2:
        return (name, nums[0], nums[1])
    raise ValueError('cannot parse operands of ' + s)


def parse_peep(tok):
    parts = tok.split(':')
    name = parts[0]
    a = int(parts[1]) if len(parts) > 1 else None
    b = int(parts[2]) if len(parts) > 2 else None
    return (name, a, b)


def show(ins):
    name, a, b = ins
    if a is None:
        return name
    if b is None:
        return '%s:%d' % (name, a)
    return '%s:%d:%d' % (name, a, b)


PUSH1 = {'Nil', 'True', 'False', 'Constant', 'ConstantLong', 'Channel', 'LoadGlobal', 'GetError', 'EmptyBox',
         'Class', 'Import', 'ImportSym'}
UNARY = {'Negate', 'Not', 'BufferedChannel', 'Receive', 'IterNext', 'IterCurrent', 'GetProp'}
BINARY = {'Add', 'Subtract', 'Multiply', 'Divide', 'Equal', 'NotEqual', 'Less', 'LessEqual', 'Greater',
          'GreaterEqual'}
NOSTACK = {'DeclareModSym', 'PopHandler', 'FinishUnwind', 'ArgumentDelimiter', 'PropertySlot', 'InvokeSlot',
           'CaptureLocal', 'CaptureEnclosing', 'Label'}
PEEK1 = {'Export', 'Field', 'Box'}
LOADS = {'GetLocal': 'L', 'GetBox': 'B', 'GetCapture': 'C', 'GetModSym': 'M'}
STORES = {'SetLocal': 'L', 'SetBox': 'B', 'SetCapture': 'C', 'SetModSym': 'M'}
TERMINATORS = {'Return', 'Raise', 'ContinueUnwind', 'Jump', 'Loop'}
LABEL_REFS = {'And': 0, 'Or': 0, 'JumpIfFalse': 0, 'Jump': 0, 'Loop': 0, 'CheckHandler': 0, 'PushHandler': 1}


def label_of(ins):
    name, a, b = ins
    if name in LABEL_REFS:
        return b if LABEL_REFS[name] == 1 else a
    return None


class Underflow:
    """stack of unknown depth: popping below what the window pushed yields
    fresh symbols in_0, in_1, ... for the caller's slots"""

    def __init__(self):
        self.items = []
        self.taken = 0

    def push(self, v):
        self.items.append(v)

    def pop(self):
        if self.items:
            return self.items.pop()
        v = ('in', self.taken)
        self.taken += 1
        return v

    def peek(self, d=0):
        while len(self.items) <= d:
            self.items.insert(0, ('in', self.taken))
            self.taken += 1
        return self.items[-1 - d]

    def snapshot(self):
        return (self.taken, tuple(self.items))


def sym_exec(code, start=0, max_steps=10000):
    """Run from index `start` to a terminator or the end of the sequence,
    following fall-through edges and unconditional forward jumps to labels inside the sequence. Returns (events, stack snapshot, env)."""
    st = Underflow()
    env = {}
    defined = set()
    events = []
    i = start
    n = len(code)
    steps = 0
    label_pos = {}
    for idx, ins in enumerate(code):
        if ins[0] == 'Label':
            label_pos.setdefault(ins[1], idx)
    while i < n:
        steps += 1
        if steps > max_steps:
            events.append(('steps',))
            break
        name, a, b = code[i]
        i += 1
        if name in NOSTACK:
            if name in ('PopHandler', 'FinishUnwind', 'DeclareModSym'):
                events.append((name, a, b))
            continue
        if name in PUSH1:
            st.push((name, a, b, len(events)) if name in ('EmptyBox', 'Class', 'Channel', 'GetError', 'Import',
                                                         'ImportSym') else (name, a, b))
            if name in ('Import', 'ImportSym', 'EmptyBox', 'Class', 'Channel'):
                events.append((name, a, b))
        elif name in LOADS:
            kind = LOADS[name]
            v = env.get((kind, a), ('init', kind, a))
            if kind in ('B', 'M') and (kind, a) not in defined:
                # reading a box / module symbol may raise on Undefined; once it
                # has been read or written successfully a re-read cannot
                events.append(('load', kind, a, v))
                defined.add((kind, a))
            st.push(v)
        elif name in STORES:
            kind = STORES[name]
            v = st.peek(0)
            env[(kind, a)] = v
            defined.add((kind, a))
            events.append(('store', kind, a, v))
        elif name == 'Dup':
            st.push(st.peek(0))
        elif name == 'Drop':
            st.pop()
        elif name == 'DropN':
            for _ in range(a):
                st.pop()
        elif name in UNARY:
            v = st.pop()
            events.append((name, a, v))
            st.push(('r', name, a, v, len(events)))
        elif name == 'GetPropByName':
            v = st.pop()
            events.append(('getprop', a, v))
            st.push(('prop', a, v, len(events)))
        elif name in BINARY:
            r = st.pop()
            l = st.pop()
            events.append((name, l, r))
            st.push(('r', name, l, r, len(events)))
        elif name in PEEK1:
            events.append((name, a, st.peek(0)))
        elif name == 'FillBox':
            v = st.pop()
            events.append(('FillBox', st.peek(0), v))
        elif name in ('SetProp', 'SetPropByName'):
            v = st.pop()
            o = st.pop()
            events.append((name, a, o, v))
            st.push(v)
        elif name in ('Method', 'StaticMethod'):
            m = st.pop()
            events.append((name, a, st.peek(0), m))
        elif name == 'Inherit':
            events.append((name, st.peek(1), st.peek(0)))
        elif name == 'GetSuper':
            sup = st.pop()
            recv = st.pop()
            events.append(('getsuper', a, recv, sup))
            st.push(('super', a, recv, sup, len(events)))
        elif name == 'Send':
            ch = st.pop()
            v = st.peek(0)
            events.append(('Send', ch, v))
        elif name in ('List', 'Tuple', 'Interpolate', 'Map'):
            k = a * 2 if name == 'Map' else a
            vals = tuple(reversed([st.pop() for _ in range(k)]))
            events.append((name, vals))
            st.push(('r', name, vals, len(events)))
        elif name == 'Call':
            args = tuple(reversed([st.pop() for _ in range(a)]))
            callee = st.pop()
            events.append(('call', callee, args))
            st.push(('ret', callee, args, len(events)))
        elif name == 'Invoke':
            args = tuple(reversed([st.pop() for _ in range(b)]))
            recv = st.pop()
            events.append(('getprop', a, recv))
            callee = ('prop', a, recv, len(events))
            events.append(('call', callee, args))
            st.push(('ret', callee, args, len(events)))
        elif name == 'SuperInvoke':
            args = tuple(reversed([st.pop() for _ in range(b)]))
            sup = st.pop()
            recv = st.pop()
            events.append(('getsuper', a, recv, sup))
            callee = ('super', a, recv, sup, len(events))
            events.append(('call', callee, args))
            st.push(('ret', callee, args, len(events)))
        elif name == 'Launch':
            args = tuple(reversed([st.pop() for _ in range(a)]))
            callee = st.pop()
            events.append(('launch', callee, args))
        elif name == 'Closure':
            caps = []
            while i < n and code[i][0] in ('CaptureLocal', 'CaptureEnclosing'):
                kind = 'L' if code[i][0] == 'CaptureLocal' else 'C'
                caps.append((code[i][0], code[i][1], env.get((kind, code[i][1]), ('init', kind, code[i][1]))))
                i += 1
            events.append(('Closure', a, tuple(caps)))
            st.push(('closure', a, tuple(caps), len(events)))
        elif name == 'JumpIfFalse' or name == 'CheckHandler':
            c = st.pop()
            events.append((name, a, c, st.snapshot()))
        elif name in ('And', 'Or'):
            c = st.peek(0)
            events.append((name, a, c, st.snapshot()))
            st.pop()
        elif name == 'PushHandler':
            events.append((name, b, st.snapshot()))
        elif name in ('Jump', 'Loop'):
            if name == 'Jump' and label_pos.get(a, -1) >= i:
                # an unconditional forward jump to a label inside this sequence transfers control and does
                # nothing else: execution continues there (so `Jump L; Label L` is a no-op and an optimiser may
                # delete it). Backward jumps and jumps out of the sequence end the path as an observable exit.
                i = label_pos[a] + 1
                continue
            events.append((name, a, st.snapshot()))
            return events, st.snapshot(), env, name
        elif name in ('Return', 'Raise'):
            events.append((name, st.pop()))
            return events, None, env, name
        elif name == 'ContinueUnwind':
            events.append((name,))
            return events, None, env, name
        else:
            raise ValueError('no semantics for ' + name)
    return events, st.snapshot(), env, 'end'


def equivalent(pre, post):
    """Compare two sequences from the entry and from every label that survives.
    Returns None or a description of the first difference."""
    def label_positions(code):
        return {ins[1]: idx for idx, ins in enumerate(code) if ins[0] == 'Label'}
    lp, lq = label_positions(pre), label_positions(post)
    # every label that is referenced, or that existed before, must still exist
    referenced = set()
    for ins in pre:
        l = label_of(ins)
        if l is not None:
            referenced.add(l)
    for l in lp:
        if l not in lq:
            return 'label %d removed by the optimiser' % l
    for l in lq:
        if l not in lp:
            return 'label %d invented by the optimiser' % l
    entries = [('entry', 0, 0)] + [('label %d' % l, lp[l] + 1, lq[l] + 1) for l in sorted(lp)]
    for what, i, j in entries:
        a = sym_exec(pre, i)
        b = sym_exec(post, j)
        if a[0] != b[0]:
            k = 0
            while k < len(a[0]) and k < len(b[0]) and a[0][k] == b[0][k]:
                k += 1
            return 'from %s: events differ at #%d: %r vs %r' % (
                what, k, a[0][k] if k < len(a[0]) else None, b[0][k] if k < len(b[0]) else None)
        if a[3] != b[3]:
            return 'from %s: path ends differently (%s vs %s)' % (what, a[3], b[3])
        if a[1] != b[1]:
            return 'from %s: final stack differs: %r vs %r' % (what, a[1], b[1])
        if a[2] != b[2]:
            return 'from %s: final variables differ' % what
    return None


def line_provenance(pre, post, post_lines, pre_lines=None):
    """Every output instruction must carry the line of an input instruction it
    can have come from, in order."""
    if len(post_lines) != len(post):
        return 'line table has %d entries for %d instructions' % (len(post_lines), len(post))
    if pre_lines is None:
        pre_lines = list(range(len(pre)))
    # map line -> candidate input indices, scanning monotonically
    pos = 0
    for k, ins in enumerate(post):
        line = post_lines[k]
        found = None
        j = pos
        # InvokeSlot shares the origin of the Invoke before it
        if ins[0] == 'InvokeSlot' and k > 0 and post[k - 1][0] in ('Invoke', 'SuperInvoke'):
            if line != post_lines[k - 1]:
                return 'InvokeSlot at output %d has line %d but its Invoke has %d' % (k, line, post_lines[k - 1])
            continue
        while j < len(pre):
            if pre_lines[j] == line and compatible(pre[j], ins):
                found = j
                break
            j += 1
        if found is None:
            return 'output %d (%s) has line %d: no later input instruction with that line can be its origin' % (
                k, show(ins), line)
        pos = found if ins[0] == 'Dup' else found + 1
        if ins[0] == 'Dup':
            pos = found + 1
    return None


def compatible(src, out):
    if src == out:
        return True
    if out[0] == 'PushHandler' and src[0] == 'PushHandler' and src[2] == out[2]:
        return True
    if out[0] == 'DropN' and src[0] == 'Drop':
        return True
    if out[0] == 'Dup' and src[0] in LOADS:
        return True
    if out[0] == 'Invoke' and src[0] == 'GetPropByName' and src[1] == out[1]:
        return True
    if out[0] == 'SuperInvoke' and src[0] == 'GetSuper' and src[1] == out[1]:
        return True
    return False
