"""Workload corpora shared by several checks."""
import json
import os
import random
import re
import zlib
import sys

sys.path.insert(0, '/verif/gen')
import vlib

SLOW_FIXTURES = ('too_many_module_symbols', 'limit/', 'benchmark', 'stack_overflow', 'loop_too_large')


# fixtures whose outcome is not a function of the program text: wall clock (`assert(clock() - start > 0)` fails whenever two
# readings coincide), random numbers, standard input, environment. A differential verdict on them would be a coin toss.
_NONDETERMINISTIC = re.compile(r'\bclock\s*\(|\brand\s*\(|\bstdin\b|import\s+std\.env|\benv\.')


def fixture_list(expect=None, skip_slow=True):
    out = []
    for p, e in vlib.fixtures(expect):
        if skip_slow and any(s in p for s in SLOW_FIXTURES):
            continue
        try:
            if _NONDETERMINISTIC.search(open(p, encoding='utf-8', errors='replace').read()):
                continue
        except OSError:
            continue
        out.append((p, e))
    return out


def generated_sources(seed, n, kinds=('core',)):
    """(name, text) for n generated programs of the requested generator kinds."""
    import lyast
    out = []
    for i in range(n):
        kind = kinds[i % len(kinds)]
        rng = random.Random((seed << 24) ^ (i * 7919) ^ zlib.crc32(kind.encode()) % 65536)
        text = None
        try:
            if kind == 'core':
                import gen_core
                g = gen_core.Gen(rng, max_depth=rng.choice([2, 3, 4]))
                stmts = g.program(rng.randint(6, 14))
                pos = rng.choice(['module', 'fn', 'method', 'lambda', 'fn_args'])
                text = lyast.to_source(gen_core.wrap_position(stmts, pos))
            else:
                mod = __import__('gen_' + kind)
                text = mod.source(rng)
        except Exception as e:  # generator bug: skip the case, never a verdict
            text = None
        if text:
            out.append(('%s_%d' % (kind, i), text))
    return out


def _dump_one(args):
    lyrun, path, dump, cwd = args
    r = vlib.lyrun(lyrun, path, ['--dump', dump, '--steps', '3000000'], timeout=60, cwd=cwd)
    recs = []
    if os.path.exists(dump):
        for line in open(dump):
            try:
                d = json.loads(line)
            except ValueError:
                continue
            d['source'] = path
            recs.append(d)
        os.unlink(dump)
    return path, r.outcome, recs


def compile_dumps(lyrun, work, seed, n_generated=300, kinds=('core',), include_fixtures=True, want_modules=False):
    jobs = []
    if include_fixtures:
        for i, (p, e) in enumerate(fixture_list()):
            jobs.append((lyrun, p, os.path.join(work, 'fx%d.dump' % i), os.path.dirname(p)))
    gdir = os.path.join(work, 'gen')
    os.makedirs(gdir, exist_ok=True)
    for name, text in generated_sources(seed, n_generated, kinds):
        p = os.path.join(gdir, name + '.lay')
        with open(p, 'w') as fh:
            fh.write(text)
        jobs.append((lyrun, p, p + '.dump', gdir))
    res = vlib.pmap(_dump_one, jobs, chunksize=4)
    funs = []
    mods = []
    for path, outcome, recs in res:
        for d in recs:
            if d.get('t') == 'fun':
                funs.append(d)
            elif d.get('t') == 'module':
                mods.append(d)
    if want_modules:
        return funs, mods, res
    return funs
