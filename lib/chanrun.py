"""Run generated fiber/channel networks on the VM and collect what the
C07 / C08 oracles need."""
import os
import random
import zlib
import sys

sys.path.insert(0, '/verif/gen')
import vlib
import gen_chan

BINS = {}
WORK = None


def make_net(seed, idx, stratum):
    rng = random.Random((seed << 22) ^ (idx * 2654435761 % (1 << 31)) ^ zlib.crc32(stratum.encode()) % 9973)
    if stratum == 'sync2':
        # clean stratum: main + one fiber, synchronous channels only, no close
        net = gen_chan.gen_network(rng, n_fibers=2, n_chans=rng.randint(1, 4), max_ops=rng.choice([4, 8, 14, 20]),
                                   srsw=True, allow_close=False, join_prob=rng.choice([0.0, 0.7, 1.0]))
        net['chans'] = [0 for _ in net['chans']]
        return net
    if stratum == 'two':
        return gen_chan.gen_network(rng, n_fibers=2, n_chans=rng.randint(1, 4), max_ops=rng.choice([4, 8, 14, 20]),
                                    srsw=True, allow_close=True)
    if stratum == 'star':
        # main is an endpoint of every channel
        nf = rng.randint(3, 5)
        net = gen_chan.gen_network(rng, n_fibers=nf, n_chans=rng.randint(2, 4), max_ops=8, srsw=True)
        return net
    if stratum == 'multi_srsw':
        return gen_chan.gen_network(rng, n_fibers=rng.randint(3, 6), n_chans=rng.randint(1, 4),
                                    max_ops=rng.choice([4, 8, 12]), srsw=True, nested_launch=rng.random() < 0.3)
    if stratum == 'multi_mrmw':
        return gen_chan.gen_network(rng, n_fibers=rng.randint(3, 6), n_chans=rng.randint(1, 3),
                                    max_ops=rng.choice([4, 8, 12]), srsw=False, allow_close=False,
                                    nested_launch=rng.random() < 0.3)
    if stratum == 'pool':
        return gen_chan.gen_pool(rng)
    if stratum == 'pipeline':
        return gen_chan.gen_pipeline(rng)
    if stratum == 'nested':
        return gen_chan.gen_nested(rng)
    raise ValueError(stratum)


def run_net(args):
    seed, idx, stratum, cfgs = args
    net = make_net(seed, idx, stratum)
    # every third network carries heap payloads and runs under a collection schedule
    gc_opts = []
    if idx % 3 == 2:
        net['payload'] = 'heap'
        gc_opts = ['--gc', 'every:2', '--sweep', 'alt', '--alloc', 'quarantine']
    text = gen_chan.to_source(net)
    d = os.path.join(WORK, '%s_%d_%d' % (stratum, seed, idx))
    os.makedirs(d, exist_ok=True)
    path = os.path.join(d, 'main.lay')
    with open(path, 'w') as fh:
        fh.write(text)
    try:
        model = gen_chan.kahn(net)
    except ValueError as e:
        return {'idx': idx, 'stratum': stratum, 'skip': str(e)}
    n_ops = sum(len(f) for f in net['fibers'])
    runs = []
    for cfg in cfgs:
        r = vlib.lyrun(BINS[cfg], path, ['--sched-trace', '--steps', str(200000 + 4000 * n_ops)] + gc_opts, timeout=30, cwd=d)
        h = gen_chan.History(net, r.out)
        problems = h.check()
        runs.append({
            'cfg': cfg, 'outcome': r.outcome, 'detail': r.detail, 'problems': problems,
            'unjustified': h.justify_deadlock() if r.outcome == 'deadlock' else [],
            'events': len(h.events), 'switches': (r.stats or {}).get('switches', 0),
            'sched': tuple((r.stats or {}).get('sched', [])[:400]),
            'stdout': r.out[-3000:], 'stderr': r.err[-1500:], 'sched_tail': list(r.sched[-6:]),
            'steps': (r.stats or {}).get('steps', 0),
            'received': {c: [v for v in seq] for c, seq in received_of(h).items()},
        })
    return {'idx': idx, 'stratum': stratum, 'net': net, 'text': text, 'model': model, 'runs': runs, 'n_ops': n_ops,
            'seed': seed}


def received_of(h):
    out = {}
    for e in h.events:
        if e[1] == 'rr':
            c = int(e[2][1:])
            out.setdefault(c, []).append(None if e[3] == 'nil' else (int(e[3]) if e[3].lstrip('-').isdigit() else e[3]))
    return out
