"""Model-vs-VM differential runner shared by the checks that use lyref."""
import os
import re
import sys
import hashlib
import random
import traceback

sys.path.insert(0, '/verif/gen')
import vlib
import lyast
import lyref

NUM_TOKEN = re.compile(r'(?<![A-Za-z_0-9.])-?(?:\d+\.?\d*(?:[eE][-+]?\d+)?|inf|NaN)(?![A-Za-z_0-9])')


def norm_numbers(line):
    def f(m):
        t = m.group(0)
        try:
            return repr(float(t))
        except ValueError:
            return t
    return NUM_TOKEN.sub(f, line)


def same_output(exp_lines, got_text):
    # one print() may write several physical lines
    exp_lines = '\n'.join(exp_lines).split('\n') if exp_lines else []
    got = got_text.split('\n')
    if got and got[-1] == '':
        got.pop()
    if got == exp_lines:
        return True, None
    if len(got) != len(exp_lines):
        n = min(len(got), len(exp_lines))
        for i in range(n):
            if norm_numbers(got[i]) != norm_numbers(exp_lines[i]):
                return False, 'line %d: expected %r got %r' % (i + 1, exp_lines[i], got[i])
        return False, 'expected %d lines, got %d (first extra: %r)' % (
            len(exp_lines), len(got), (got[n] if len(got) > n else exp_lines[n]))
    for i, (a, b) in enumerate(zip(exp_lines, got)):
        if a != b and norm_numbers(a) != norm_numbers(b):
            return False, 'line %d: expected %r got %r' % (i + 1, a, b)
    return True, None


def model_run(stmts, main_path='main.lay', modules=None, max_steps=400000):
    """Evaluate with the reference model. Returns dict or None when refused."""
    it = lyref.Interp(main_path=main_path, modules=modules, max_steps=max_steps)
    try:
        outcome, info = it.run(stmts)
    except lyref.Refuse as e:
        return {'refused': str(e)}
    except lyref.StepsEx:
        return {'refused': 'model step budget'}
    except RecursionError:
        return {'refused': 'python recursion'}
    if outcome == 'ok':
        oc = 'ok'
    elif outcome == 'exit':
        oc = 'ok' if info['code'] == 0 else 'exit:%d' % info['code']
    else:
        oc = 'error:' + info['cls']
    return {'out': it.out, 'outcome': oc, 'info': info, 'steps': it.steps, 'unwinds': it.unwinds,
            'calls': it.calls}


def outcome_matches(expected, got, either_get_error=False):
    if expected == got:
        return True
    return False


def run_case(case, bins, workdir, timeout=30):
    """case: dict(id, files{name:text}, main, expected{out,outcome}, runs[(cfg, opts)])
    Returns list of mismatch dicts (empty = held) and per-run results."""
    d = os.path.join(workdir, case['id'])
    os.makedirs(d, exist_ok=True)
    for name, text in case['files'].items():
        p = os.path.join(d, name)
        os.makedirs(os.path.dirname(p), exist_ok=True)
        with open(p, 'w') as fh:
            fh.write(text)
    main = os.path.join(d, case['main'])
    mismatches = []
    results = []
    exp = case['expected']
    for cfg, opts in case['runs']:
        steps = max(1_000_000, 200 * exp.get('steps', 0))
        r = vlib.lyrun(bins[cfg], main, list(opts) + ['--steps', str(steps)], timeout=timeout, cwd=d)
        results.append((cfg, opts, r))
        problem = None
        if r.outcome in ('timeout', 'harness'):
            mismatches.append({'kind': 'inconclusive', 'cfg': cfg, 'opts': opts, 'why': '%s %s %s' % (r.outcome, cfg, main)})
            continue
        if r.stats and r.stats.get('violations'):
            problem = 'monitor: ' + '; '.join(r.stats['violations'][:3])
        elif vlib.is_crash(r.outcome) or r.outcome == 'steps':
            problem = 'crash: %s %s' % (r.outcome, r.detail)
        elif r.outcome != exp['outcome']:
            problem = 'outcome: expected %s got %s %s' % (exp['outcome'], r.outcome, r.detail)
        else:
            ok, why = same_output(exp['out'], r.out)
            if not ok:
                problem = 'stdout: ' + why
        if problem is None and case.get('extra_check'):
            problem = case['extra_check'](r)
        if problem:
            mismatches.append({'kind': 'violation', 'cfg': cfg, 'opts': list(opts), 'why': problem,
                               'res': r.brief()})
    return mismatches, results
