"""Shared machinery for the /verif checks: builds, the lyrun supervisor,
outcome classification, known findings, evidence and replay files."""
import hashlib
import json
import multiprocessing
import os
import re
import shutil
import subprocess
import sys
import time

VERIF = '/verif'
REPO = '/repo'
TARGET = os.path.join(VERIF, 'target')
HARNESS = os.path.join(VERIF, 'harness')
WORK = os.path.join(VERIF, 'work')
REPLAY = os.path.join(VERIF, 'replay')
EVIDENCE = os.path.join(VERIF, 'evidence')
NCPU = int(os.environ.get('VERIF_JOBS', '0')) or (os.cpu_count() or 4)

ANSI = re.compile(r'\x1b\[[0-9;]*[a-zA-Z]')


class HarnessError(Exception):
    """The machinery itself could not run (build failure, missing tool).
    Never a verdict about the property: the check exits 2."""


# --------------------------------------------------------------------------
# builds

CFGS = {
    'dbg': dict(profile='dev', sub='debug', features=[]),
    'rel': dict(profile='release', sub='release', features=[]),
    'nan': dict(profile='dev', sub='debug', features=['nan_boxing']),
    'nanrel': dict(profile='release', sub='release', features=['nan_boxing']),
    'stress': dict(profile='dev', sub='debug', features=['gc_stress']),
    'asan': dict(profile='release', sub='x86_64-unknown-linux-gnu/release', features=['sysalloc'],
                 toolchain='+nightly', target='x86_64-unknown-linux-gnu',
                 rustflags='-Zsanitizer=address -Cforce-frame-pointers=yes -Copt-level=1 -Cdebuginfo=1'),
    'asannan': dict(profile='release', sub='x86_64-unknown-linux-gnu/release',
                    features=['sysalloc', 'nan_boxing'],
                    toolchain='+nightly', target='x86_64-unknown-linux-gnu',
                    rustflags='-Zsanitizer=address -Cforce-frame-pointers=yes -Copt-level=1 -Cdebuginfo=1'),
}

_built = {}


def build(cfg, bins=('lyrun',)):
    """Build the harness binaries for a configuration from /repo's current
    working tree. cargo is a no-op when nothing changed."""
    key = (cfg, tuple(bins))
    if key in _built:
        return _built[key]
    c = CFGS[cfg]
    lock = os.path.join(HARNESS, 'Cargo.lock')
    if not os.path.exists(lock):
        shutil.copy(os.path.join(REPO, 'Cargo.lock'), lock)
    cmd = ['cargo']
    if c.get('toolchain'):
        cmd.append(c['toolchain'])
    cmd += ['build', '--offline']
    if c['profile'] == 'release':
        cmd.append('--release')
    if c.get('target'):
        cmd += ['--target', c['target']]
    for b in bins:
        cmd += ['--bin', b]
    if c['features']:
        cmd += ['--features', ','.join(c['features'])]
    env = dict(os.environ)
    env['CARGO_TARGET_DIR'] = os.path.join(TARGET, cfg)
    env['CARGO_NET_OFFLINE'] = 'true'
    if c.get('rustflags'):
        env['RUSTFLAGS'] = c['rustflags']
    else:
        env.pop('RUSTFLAGS', None)
    t0 = time.time()
    p = subprocess.run(cmd, cwd=HARNESS, env=env, stdout=subprocess.PIPE, stderr=subprocess.STDOUT, text=True)
    if p.returncode != 0:
        tail = '\n'.join(p.stdout.splitlines()[-40:])
        raise HarnessError('build of cfg %s failed:\n%s' % (cfg, tail))
    out = {b: os.path.join(TARGET, cfg, c['sub'], b) for b in bins}
    for b, path in out.items():
        if not os.path.exists(path):
            raise HarnessError('binary missing after build: ' + path)
    out['_build_s'] = round(time.time() - t0, 1)
    _built[key] = out
    return out


# --------------------------------------------------------------------------
# running one program


class Res:
    __slots__ = ('rc', 'out', 'err', 'stats', 'outcome', 'detail', 'wall', 'sched')

    def __init__(self):
        self.rc = None
        self.out = ''
        self.err = ''
        self.stats = None
        self.outcome = None
        self.detail = ''
        self.wall = 0.0
        self.sched = []

    def brief(self):
        return {'outcome': self.outcome, 'detail': self.detail, 'rc': self.rc,
                'stdout': self.out[-2000:], 'stderr': self.err[-3000:]}


PANIC_RE = re.compile(r"panicked at ([^\n]*?):\n?\s*([^\n]*)")
ERRLINE_RE = re.compile(r'^([A-Za-z_][A-Za-z0-9_]*): (.*)$')


def classify(r):
    """Map a finished process to an outcome string.

    ok | exit:<n> | error:<Class> | deadlock | compile_error |
    panic | signal:<n> | asan | steps | timeout | harness
    """
    err = r.err
    if r.rc is None:
        r.outcome = 'timeout'
        return r
    if r.rc == 96 and 'VERIF-STEPS' in err:
        r.outcome = 'steps'
        return r
    if r.rc == 95 and 'VERIF-IP' in err:
        r.outcome = 'ip_outside'
        return r
    if r.rc == 98:
        r.outcome = 'harness'
        r.detail = err[-300:]
        return r
    if 'ERROR: AddressSanitizer' in err:
        r.outcome = 'asan'
        m = re.search(r'ERROR: AddressSanitizer: ([^\n]*)', err)
        frames = re.findall(r'#\d+ 0x[0-9a-f]+ in ([^\n]*)', err)
        first = next((f for f in frames if 'laythe' in f), frames[0] if frames else '')
        r.detail = (m.group(1)[:80] if m else '') + ' @ ' + first[:160]
        return r
    if r.rc < 0:
        r.outcome = 'signal:%d' % (-r.rc)
        m = PANIC_RE.search(err)
        if m:
            r.detail = 'panic %s: %s' % (m.group(1), m.group(2)[:120])
        return r
    if r.stats is None:
        m = PANIC_RE.search(err)
        if m or r.rc == 101:
            r.outcome = 'panic'
            r.detail = ('%s: %s' % (m.group(1), m.group(2)[:160])) if m else err[-200:]
            return r
        r.outcome = 'nostats'
        r.detail = 'rc=%s %s' % (r.rc, err[-200:])
        return r
    vm_exit = r.stats.get('vm_exit')
    if 'Fatal error deadlock.' in err:
        r.outcome = 'deadlock'
        return r
    if vm_exit == 'Ok':
        r.outcome = 'ok'
        return r
    if vm_exit == 'CompileError':
        r.outcome = 'compile_error'
        return r
    # RuntimeError: uncaught error with traceback, or exit(n)
    if 'Traceback (most recent call last):' in err:
        cls = '?'
        for line in reversed(err.strip().splitlines()):
            m = ERRLINE_RE.match(line.strip())
            if m:
                cls = m.group(1)
                r.detail = m.group(2)[:200]
                break
        r.outcome = 'error:' + cls
        return r
    r.outcome = 'exit:%d' % r.stats.get('exit', r.rc)
    return r


def lyrun(binpath, target, opts=(), stdin_text=None, timeout=30, cwd=None, env_extra=None):
    """Run lyrun on a file (or --repl when target is None)."""
    cmd = [binpath] + list(opts)
    cmd += ['--repl'] if target is None else [target]
    env = dict(os.environ)
    env['RUST_BACKTRACE'] = '0'
    env.setdefault('ASAN_OPTIONS', 'detect_leaks=0:abort_on_error=0:halt_on_error=1:symbolize=1')
    env['ASAN_SYMBOLIZER_PATH'] = env.get('ASAN_SYMBOLIZER_PATH', '/usr/bin/llvm-symbolizer-14')
    if env_extra:
        env.update(env_extra)
    r = Res()
    t0 = time.time()
    try:
        p = subprocess.run(cmd, input=(stdin_text if stdin_text is not None else ''), stdout=subprocess.PIPE,
                           stderr=subprocess.PIPE, timeout=timeout, cwd=cwd, env=env,
                           text=True, errors='replace')
        r.rc = p.returncode
        out, err = p.stdout, p.stderr
    except subprocess.TimeoutExpired as e:
        r.rc = None
        out = (e.stdout or b'')
        err = (e.stderr or b'')
        if isinstance(out, bytes):
            out = out.decode('utf-8', 'replace')
        if isinstance(err, bytes):
            err = err.decode('utf-8', 'replace')
    r.wall = time.time() - t0
    out = ANSI.sub('', out)
    err = ANSI.sub('', err)
    idx = err.rfind('VERIF-STATS ')
    if idx >= 0:
        line = err[idx + len('VERIF-STATS '):].split('\n', 1)[0]
        try:
            r.stats = json.loads(line)
        except ValueError:
            r.stats = None
        err = err[:idx].rstrip('\n') + '\n'
    if 'VERIF-SCHED ' in err:
        keep = []
        sched = []
        for line in err.split('\n'):
            if line.startswith('VERIF-SCHED '):
                sched.append(line[len('VERIF-SCHED '):])
            else:
                keep.append(line)
        err = '\n'.join(keep)
        r.sched = sched
    r.out = out
    r.err = err
    return classify(r)


CRASH_OUTCOMES = ('panic', 'asan', 'nostats', 'ip_outside')


def is_crash(outcome):
    return outcome in CRASH_OUTCOMES or outcome.startswith('signal:')


# --------------------------------------------------------------------------
# fixtures the repository's own tests pin

_FIX_CALL = re.compile(r'test_file_exits(?:_with_cwd)?\(\s*&\[(.*?)\]\s*,(?:\s*"[^"]*"\s*,)?\s*VmExit::(\w+)', re.S)


def fixtures(expect=None):
    """(path, expected VmExit) pairs extracted from laythe_vm/tests/*.rs"""
    pairs = []
    tests = os.path.join(REPO, 'laythe_vm', 'tests')
    for name in sorted(os.listdir(tests)):
        if not name.endswith('.rs'):
            continue
        text = open(os.path.join(tests, name)).read()
        for m in _FIX_CALL.finditer(text):
            for f in re.findall(r'"([^"]+\.lay)"', m.group(1)):
                path = os.path.join(REPO, 'laythe_vm', 'fixture', f)
                if os.path.exists(path):
                    pairs.append((path, m.group(2)))
    seen = set()
    out = []
    for p in pairs:
        if p[0] in seen:
            continue
        seen.add(p[0])
        if expect is None or p[1] == expect:
            out.append(p)
    return out


# --------------------------------------------------------------------------
# parallel map


def pmap(fn, items, jobs=None, chunksize=1):
    jobs = jobs or NCPU
    items = list(items)
    if not items:
        return []
    if jobs <= 1 or len(items) == 1:
        return [fn(x) for x in items]
    ctx = multiprocessing.get_context('fork')
    with ctx.Pool(min(jobs, len(items))) as pool:
        return pool.map(fn, items, chunksize)


# --------------------------------------------------------------------------
# known findings


def load_findings():
    path = os.path.join(VERIF, 'known_findings.json')
    if not os.path.exists(path):
        return {'findings': [], 'fixed': []}
    return json.load(open(path))


def match_finding(prop, signature_text, findings=None):
    """A violation is a known finding iff one entry for this property has a
    regex `match` that matches the violation's signature text."""
    findings = findings or load_findings()
    for f in findings['findings']:
        if prop in f['properties'] and re.search(f['match'], signature_text, re.S):
            return f
    return None


# --------------------------------------------------------------------------
# evidence / verdict


class Check:
    """Collects what one check run observed and turns it into the evidence
    file, the VIOLATION / KNOWN-FINDING lines and the exit status."""

    def __init__(self, prop, tier, level='exploration'):
        self.prop = prop
        self.tier = tier
        self.level = level
        self.seed = int(os.environ.get('VERIF_SEED', '0') or 0)
        self.t0 = time.time()
        self.evaluations = 0
        self.distinct = set()
        self.samples = []
        self.violations = []
        self.known = {}
        self.inconclusive = []
        self.counters = {}
        self.assumptions = []
        self.extra = {}
        self.rule = ''
        self.reach_failures = []
        self.findings = load_findings()
        shutil.rmtree(os.path.join(REPLAY, prop), ignore_errors=True)

    def run_witnesses(self, lyrun_bin):
        """Re-run the committed witness of every known finding of this property:
        still failing -> counted (KNOWN-FINDING line), no longer failing -> STALE-FINDING."""
        for f in self.findings['findings']:
            if self.prop not in f['properties'] or not f.get('witness'):
                continue
            path = os.path.join(VERIF, f['witness'])
            if f.get('witness_stdin'):
                # a prompt session: the witness is fed to the interactive prompt line by line
                r = lyrun(lyrun_bin, None, ['--steps', '5000000'], stdin_text=open(path).read(), timeout=60,
                          cwd=os.path.dirname(path))
            else:
                r = lyrun(lyrun_bin, path, ['--steps', '5000000'], timeout=60, cwd=os.path.dirname(path))
            exp = f.get('witness_expect', {})
            still = True
            if 'outcome' in exp and not re.search(exp['outcome'], r.outcome or ''):
                still = False
            if 'detail' in exp and not re.search(exp['detail'], r.detail or ''):
                still = False
            if 'stdout' in exp and not re.search(exp['stdout'], r.out):
                still = False
            if 'stderr' in exp and not re.search(exp['stderr'], r.err):
                still = False
            if still:
                self.known.setdefault(f['id'], {'what': f['what_fails'], 'n': 0})
                self.known[f['id']]['n'] += 1
            else:
                print('STALE-FINDING: property=%s %s no longer fails on its witness %s (outcome %s)' % (
                    self.prop, f['id'], f['witness'], r.outcome))

    def count(self, key, n=1):
        self.counters[key] = self.counters.get(key, 0) + n

    def add_stats(self, stats, keys):
        if not stats:
            return
        for k in keys:
            v = stats.get(k)
            if isinstance(v, (int, float)):
                self.count(k, v)

    def sample(self, s, limit=4):
        if len(self.samples) < limit:
            self.samples.append(s)

    def violation(self, signature, files, info):
        """signature: text the known-findings file is matched against.
        files: {name: content} written to the replay dir. info: dict."""
        f = match_finding(self.prop, signature, self.findings)
        if f is not None:
            self.known.setdefault(f['id'], {'what': f['what_fails'], 'n': 0})
            self.known[f['id']]['n'] += 1
            return False
        h = hashlib.sha1((signature + json.dumps(info, sort_keys=True, default=str)).encode()).hexdigest()[:12]
        d = os.path.join(REPLAY, self.prop, h)
        if len(self.violations) < 40:
            os.makedirs(d, exist_ok=True)
            for name, content in files.items():
                os.makedirs(os.path.dirname(os.path.join(d, name)) or d, exist_ok=True)
                with open(os.path.join(d, name), 'w') as fh:
                    fh.write(content)
            with open(os.path.join(d, 'info.json'), 'w') as fh:
                json.dump(dict(info, signature=signature), fh, indent=1, default=str)
        self.violations.append((signature[:300], d))
        return True

    def require(self, what, value, minimum):
        """Reach self-test: the mechanism must have been exercised."""
        if value < minimum:
            self.reach_failures.append('%s = %s < %s' % (what, value, minimum))

    def finish(self):
        wall = time.time() - self.t0
        cov = {
            'evaluations': int(self.evaluations),
            'distinct_nontrivial': len(self.distinct),
            'rule': self.rule,
            'samples': self.samples or ['(none)'],
            'counters': self.counters,
            'inconclusive': len(self.inconclusive),
            'inconclusive_samples': self.inconclusive[:5],
            'known_findings_hit': self.known,
            'reach_failures': self.reach_failures,
        }
        cov.update(self.extra)
        ev = {
            'property_id': self.prop,
            'tier': self.tier,
            'seed': self.seed,
            'level': self.level,
            'coverage': cov,
            'assumptions': self.assumptions,
            'wall_s': round(wall, 2),
            'violations': len(self.violations),
        }
        os.makedirs(EVIDENCE, exist_ok=True)
        with open(os.path.join(EVIDENCE, self.prop + '.json'), 'w') as fh:
            json.dump(ev, fh, indent=1, default=str)
        for fid, k in sorted(self.known.items()):
            print('KNOWN-FINDING: property=%s %s [%s, hit %d time(s)]' % (self.prop, k['what'], fid, k['n']))
        print('%s %s: %d evaluations, %d distinct non-trivial, %d violations, %d inconclusive, %.1fs' % (
            self.prop, self.tier, self.evaluations, len(self.distinct), len(self.violations),
            len(self.inconclusive), wall))
        for k in sorted(self.counters):
            print('  %s = %s' % (k, self.counters[k]))
        if self.violations:
            seen = set()
            for sig, d in self.violations:
                if d in seen:
                    continue
                seen.add(d)
                print('VIOLATION property=%s replay=%s' % (self.prop, d))
                print('  ' + sig.replace('\n', ' | ')[:300])
            return 1
        if self.reach_failures or (self.evaluations and len(self.inconclusive) > 0.05 * self.evaluations):
            sys.stderr.write('INCONCLUSIVE %s: %s; inconclusive executions %d/%d\n' % (
                self.prop, '; '.join(self.reach_failures), len(self.inconclusive), self.evaluations))
            return 2
        return 0


def workdir(name):
    d = os.path.join(WORK, name)
    shutil.rmtree(d, ignore_errors=True)
    os.makedirs(d, exist_ok=True)
    return d
