"""Shared driver for C07 (safety of channel histories) and C08 (progress and
deadlock reporting)."""
import hashlib
import json
import os
import re
import sys

sys.path.insert(0, '/verif/lib')
sys.path.insert(0, '/verif/gen')
import vlib
import chanrun

STRATA_QUICK = [('sync2', 3000), ('two', 2000), ('star', 1200), ('multi_srsw', 1500), ('multi_mrmw', 1500), ('pool', 1500), ('pipeline', 1000), ('nested', 800)]
STRATA_THOROUGH = [('sync2', 120000), ('two', 80000), ('star', 40000), ('multi_srsw', 60000), ('multi_mrmw', 60000), ('pool', 60000), ('pipeline', 40000), ('nested', 30000)]

# A fixed corpus, independent of VERIF_SEED: the networks on which the tree shows a known scheduler finding are
# listed by id in /verif/known_networks.json, so a NEW failing network is reported even though it looks like D22.
FIXED_SEED = 987654
FIXED_CORPUS = [['two', 3000], ['star', 2500], ['multi_srsw', 3500], ['multi_mrmw', 3500], ['pool', 4000],
                ['pipeline', 3000], ['nested', 2000]]


def failure_kind(r, run):
    """None, or the kind of C07/C08 failure this run shows"""
    o = run['outcome']
    if o in ('panic', 'nostats') or o.startswith('signal'):
        return 'panic'
    if o == 'steps':
        return 'hang'
    if o == 'deadlock':
        if run['unjustified'] or (r['net']['srsw'] and r['model']['main_done']):
            return 'spurious-deadlock'
        return None
    if o == 'ok':
        if r['net']['srsw'] and not r['model']['main_done']:
            return 'missed-deadlock'
        if any(p[0] == 'sync-sender-early' for p in run['problems']):
            return 'sync-sender-early'
        return None
    return 'other:' + o


def load_known_networks():
    import json
    try:
        return json.load(open('/verif/known_networks.json'))['failing']
    except (OSError, ValueError, KeyError):
        return {}


SAFETY_RULES = ('invented', 'duplicate', 'reorder', 'lost', 'capacity', 'nil-from-open', 'close-order',
                'send-after-close')


def norm_reason(u):
    u = re.sub(r'\[.*?\]', '[..]', u)
    return re.sub(r'\d+', 'N', u)


def panic_signature(run):
    msg = run['detail']
    last_wake = ''
    for ev in reversed(run.get('sched_tail', [])):
        if ev.startswith('wake '):
            last_wake = ev.split('state=')[-1]
            break
    return 'sched-panic: %s woken-state=%s' % (re.sub(r':\d+:\d+', '', msg), last_wake)


def evaluate(prop, tier, seed):
    chk = vlib.Check(prop, tier)
    try:
        chanrun.BINS = {'dbg': vlib.build('dbg')['lyrun'], 'rel': vlib.build('rel')['lyrun']}
    except vlib.HarnessError as e:
        sys.stderr.write(str(e) + '\n')
        return None, 2
    chanrun.WORK = vlib.workdir(prop)
    strata = STRATA_QUICK if tier == 'quick' else STRATA_THOROUGH
    scale = float(os.environ.get('VERIF_SCALE', '1'))
    jobs = []
    for name, n in strata:
        n = max(10, int(n * scale))
        for i in range(n):
            jobs.append((seed, i, name, ['dbg', 'rel'] if i % 4 == 0 else ['dbg']))
    for name, n in FIXED_CORPUS:
        for i in range(n):
            jobs.append((FIXED_SEED, i, name, ['dbg']))
    res = vlib.pmap(chanrun.run_net, jobs, chunksize=8)
    return (chk, res), 0
