#!/usr/bin/env python3
"""Replay one recorded violation: ./check <ID> --replay <dir>.
Re-runs the recorded input with the recorded configuration on the current
tree and prints expected vs observed."""
import json
import os
import sys

sys.path.insert(0, '/verif/lib')
import vlib


def main():
    prop, d = sys.argv[1], sys.argv[2]
    info = json.load(open(os.path.join(d, 'info.json')))
    print('signature:', info.get('signature'))
    cfg = info.get('cfg', 'dbg')
    opts = [o for o in info.get('opts', []) if isinstance(o, str)]
    main_file = None
    for cand in ('main.lay', 'input.lay', 'source.lay', 'file.lay'):
        if os.path.exists(os.path.join(d, cand)):
            main_file = os.path.join(d, cand)
            break
    if cfg not in vlib.CFGS:
        cfg = 'dbg'
    binp = vlib.build(cfg)['lyrun']
    if os.path.exists(os.path.join(d, 'session.txt')):
        r = vlib.lyrun(binp, None, opts, stdin_text=open(os.path.join(d, 'session.txt')).read(), cwd=d)
    elif main_file:
        r = vlib.lyrun(binp, main_file, opts, cwd=d, timeout=120)
    else:
        print('nothing runnable recorded here (window / stream violations are re-checked by the check itself)')
        for f in sorted(os.listdir(d)):
            print('---', f)
            print(open(os.path.join(d, f)).read()[:3000])
        return 0
    print('cfg:', cfg, 'opts:', ' '.join(opts))
    print('outcome:', r.outcome, r.detail)
    print('--- stdout')
    print(r.out[-4000:])
    print('--- stderr')
    print(r.err[-3000:])
    if 'expected' in info:
        print('--- expected')
        print(json.dumps(info['expected'], indent=1)[:4000])
    if r.stats and r.stats.get('violations'):
        print('--- monitor violations')
        for v in r.stats['violations']:
            print(v)
    return 0


if __name__ == '__main__':
    sys.exit(main())
