#!/usr/bin/env python3
"""Regenerate /verif/known_networks.json: the networks of the FIXED corpus
(seed independent of VERIF_SEED) on which the current tree shows one of the
known scheduler findings (D4/D5/D22 for C08, D16 for C07). The file is part of
the known findings: committed, never written by a check. Run only on a tree
whose failures have been triaged as those findings."""
import json
import sys

sys.path.insert(0, '/verif/lib')
sys.path.insert(0, '/verif/gen')
import vlib
import chanrun
import chancheck


def main():
    chanrun.BINS = {'dbg': vlib.build('dbg')['lyrun']}
    chanrun.WORK = vlib.workdir('known_networks')
    out = {}
    for stratum, n in chancheck.FIXED_CORPUS:
        res = vlib.pmap(chanrun.run_net, [(chancheck.FIXED_SEED, i, stratum, ['dbg']) for i in range(n)], chunksize=8)
        known = {}
        for r in res:
            if 'skip' in r:
                continue
            kind = chancheck.failure_kind(r, r['runs'][0])
            if kind:
                known[str(r['idx'])] = kind
        out[stratum] = known
        print(stratum, n, 'networks,', len(known), 'show a known finding')
    json.dump({'seed': chancheck.FIXED_SEED, 'corpus': chancheck.FIXED_CORPUS, 'failing': out},
              open('/verif/known_networks.json', 'w'), indent=0, sort_keys=True)


if __name__ == '__main__':
    main()
