#!/bin/bash
# tools/try_seeded.sh <patch.diff> <check> [<check> ...]
# Apply a seeded change to /repo, run the named quick checks, undo it straight afterwards.
patch="$1"; shift
cd /repo || exit 2
if [ -n "$(git status --porcelain --untracked-files=no)" ]; then echo "/repo is not clean"; exit 2; fi
git apply "$patch" || { echo "PATCH DOES NOT APPLY to /repo"; exit 1; }
cd /verif
for c in "$@"; do
  out=$(VERIF_SEED=${VERIF_SEED:-0} ./check $c --tier ${TIER:-quick} 2>&1); rc=$?
  nv=$(echo "$out" | grep -c "^VIOLATION")
  echo "$c rc=$rc violations=$nv | $(echo "$out" | grep -E "^C[0-9]+ (quick|thorough)" | cut -c1-110)"
  echo "$out" | grep -A1 "^VIOLATION" | grep -v "^VIOLATION\|^--" | cut -c1-160 | sort | uniq -c | sort -rn | head -3
done
git -C /repo checkout -- .
