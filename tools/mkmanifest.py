#!/usr/bin/env python3
"""Regenerate /verif/MANIFEST.json from the table below and validate it."""
import json
import os
import subprocess
import sys

CHECKS = {
    'C01': dict(
        technique='reference-model differential monitor over generated programs (stdout/outcome oracle), layout and position metamorphic variants, online stack monitor',
        text='Exploration: thousands of generated core-grammar programs per run; each AST is printed in several layouts and positions and every text is executed on the debug and release builds; stdout and terminal outcome are compared with an independent executable reference model (lyref) and the in-VM stack monitor runs underneath. Held = no divergence on the executions observed.',
        note='Trusts the reference model lyref (calibrated against the unchanged tree over many seeds) and Python float arithmetic being IEEE; samples a depth-bounded program space.',
        ref='DESIGN.md §2 C01'),
}

CHECKS['C12'] = dict(
    technique='translation validation of the real optimiser: abstract stack machine over recorded compiler streams + exhaustive compiler-shaped window enumeration through peephole_optimize',
    text='Every window up to the length bound over the alphabet the rules mention, including 16-bit operands that alias a small one modulo 256 (restricted to adjacent pairs the real compiler emits), and drop/load runs of up to 600 instructions, is run through the real peephole_optimize and the output is checked for event/stack/variable equivalence from the entry and from every label plus line provenance; every pre/post stream pair recorded from real compiles of the corpus is checked the same way. The enumeration is streamed with a window budget (quick 2*10^6, thorough 2*10^8: full alphabet to length 5, base alphabet to length 6). The abstract machine follows unconditional forward jumps inside a sequence (a jump only transfers control), so a rule that deletes a jump to the next location is accepted. Exhaustive for the enumerated window space, sampling for whole programs.',
    note='Trusts the abstract machine semantics in lib/absmach.py (written from ops.rs); windows containing adjacencies the compiler never emits are outside the quantifier and not enumerated.',
    ref='DESIGN.md §2 C12')

CHECKS['C06'] = dict(
    technique='offline bytecode verifier (all CFG paths) over compile dumps of the real compiler + online in-VM stack monitor on executed paths',
    text='Every function the real compiler emits for the corpus (fixtures, generated programs, opcode-coverage and boundary programs) is dumped by a hook and verified offline over all control-flow paths: consistent depth at joins, no pop below callee+parameters, local/capture/constant/cache operands in range, maximum depth within the reservation, handler depth equal to the live depth, jump distances in range and the encoded bytes re-derived by an independent encoder. The same programs run on debug and release builds under an in-VM monitor that checks depth, ip and handler depth before every instruction.',
    note='Trusts the stack-effect table in lib/lyverify.py (written from ops.rs) and the dump hook reporting what is really encoded; the all-paths claim holds for the functions of the corpus only.',
    ref='DESIGN.md §2 C06')

CHECKS['C07'] = dict(
    technique='offline history checker over event logs recorded at the program boundary of generated fiber/channel networks (unique values), Kahn-network received sequences',
    text='Thousands of generated networks (2-6 fibers, 1-4 channels, synchronous and buffered, close) print call/return events around every channel operation; stdout order is real-time order because fibers switch only inside channel operations. The offline checker decides: nothing invented, duplicated, lost or reordered, capacity never exceeded, synchronous rendezvous, close semantics; for single-reader/single-writer networks the received sequences are compared with the determinate Kahn-network result.',
    note='Histories are what the scheduler produced for the generated programs (the schedule is deterministic per program; diversity comes from program diversity). Known finding D16 is matched by signature; the two-party synchronous stratum admits no known finding.',
    ref='DESIGN.md §2 C07')
CHECKS['C08'] = dict(
    technique='outcome monitor against a Kahn-network model, deadlock justification over recorded histories, logical-time step budget, scheduler event trace hook',
    text='Same generated networks: the terminal outcome (normal exit / reported deadlock) is compared with the Kahn-network model where the network is determinate; every reported deadlock must be justified by the recorded history (main blocked, every parked fiber disabled, nothing runnable); hangs are decided on a step budget; launch argument/capture/receiver delivery and main-ends-program are checked by dedicated programs. Liveness is restated as bounded progress.',
    note='Unbounded eventually is out of reach of a finite run; replaced by the step budget. Known scheduler findings D4/D5/D22 are matched by signature outside the clean two-party synchronous stratum, where any deviation is a violation.',
    ref='DESIGN.md §2 C08')

_MODEL_NOTE = 'Trusts the reference model lyref/lynative (calibrated against the unchanged tree; refuses where behaviour is indeterminate) and samples a bounded program space.'
CHECKS['C02'] = dict(
    technique='reference-model differential monitor over generated scope skeletons with unique-integer variables, under two builds and a dense collection schedule',
    text='Generated scope skeletons (closures stored/returned/called after the declaring call returned, factories, loop-variable vs body-local capture, catch variables, self capture, shadowing, variables of an enclosing function mentioned at exactly one syntactic position of a nested function: map key/value, list/tuple element, index, interpolation, ternary, and/or, unary, call argument, nested lambda) are executed on debug, release and debug under collection at every 3rd allocation; stdout is compared with a reference model in which every execution of a declaration allocates a fresh cell. Unique integer values identify which cell was read.',
    note=_MODEL_NOTE, ref='DESIGN.md §2 C02')
CHECKS['C03'] = dict(
    technique='reference-model differential monitor over generated class hierarchies and shared call sites with receiver-class sequences; cache-off self-differential',
    text='Random hierarchies with per-class field sets, overriding, super, statics, callable fields shadowing methods and shared call sites fed with monomorphic/alternating/random receiver sequences are executed on debug, release and debug with inline caches forced off; every printed value is a unique tag and is compared with the reference class model (including property/arity error classes).',
    note=_MODEL_NOTE, ref='DESIGN.md §2 C03')
CHECKS['C04'] = dict(
    technique='reference-model differential monitor over generated try/catch placements + online handler monitor (recorded depth == live depth, no live handler at return)',
    text='Generated try/catch placements (module, functions with 0-4 parameters and locals, methods, initialisers, loops, nesting, native callbacks), every raise kind and catch filter and every way of leaving a try; all variables are unique integers printed after each try, compared with the reference model with a dynamic handler stack; an in-VM monitor checks every PushHandler depth against the live depth and that no handler of a frame is live at its Return.',
    note=_MODEL_NOTE, ref='DESIGN.md §2 C04')

_SELF_NOTE = 'Self-differential: no reference model involved; assumes a crash-free baseline run of the same program (programs whose baseline crashes are owned by C16). Reaches only the allocation sites / call sites the corpus exercises; evidence lists collections, frees and cache events observed.'
CHECKS['C05'] = dict(
    technique='GC-schedule self-differential (hook-driven collection schedules vs collection disabled) with poisoning quarantine allocator, intern-table invariant hook and ASan underneath',
    text='Every corpus program is run with collection disabled and under many collection schedules chosen through a hook (every allocation with stock/forced-full/alternating sweeps, every k-th, Bernoulli, single-point and multi-point schedules swept over the program allocation count, nursery-only on release, LIFO address reuse); outcome, stdout and error line must be identical. The corpus includes the native probe table (every third probe in the quick tier, all in the thorough tier: each starts a fresh Vm with a minimal stack, so stack growth and collections fall inside natives and their callbacks) and programs whose very first statement makes a native raise. Freed blocks are poisoned and quarantined (write-after-free detected at eviction), the intern-table invariant is checked inside every collection, ASan and the NaN-boxed build join in the thorough tier.',
    note=_SELF_NOTE, ref='DESIGN.md §2 C05')
CHECKS['C13'] = dict(
    technique='cache on/off self-differential via a cache-disable hook, under dense collection schedules with a LIFO address-reuse allocator',
    text='Workload includes classes that reach shared invoke sites only (field-less, some lacking the method so a stale hit turns an error into a call; static methods with the class as receiver), so an invoke-cache entry is the only remaining reference to a dropped class. Baseline forces every inline-cache lookup to miss; variants run with caches on in debug and release, also under collection at every allocation with an allocator that hands a freed block to the next same-size request (so a new class lands on the address of a collected one); workload: shared call sites with receiver-class sequences, classes created and dropped at run time, same-named classes with different layouts. Identical outcome/stdout required; cache hits, misses, fills and clears are counted by the hook.',
    note=_SELF_NOTE, ref='DESIGN.md §2 C13')
CHECKS['C14'] = dict(
    technique='two-build self-differential (tagged enum vs NaN-boxed) + reference-model IEEE programs on both builds + Rust-level Value round-trip monitor',
    text='All corpora run on both value representations and must agree on outcome/stdout/error line; IEEE-sensitive generated programs are additionally compared with the reference model on both builds; a Rust tool pushes >= 2*10^5 doubles reachable by arithmetic (incl. -0, infinities, NaNs, subnormals), bools, nil, undefined and objects through Value in each build, checks round trip / classification / equality / hashing and compares a digest across builds.',
    note=_SELF_NOTE + ' Maps keyed by strings or objects hash by address (order differs from run to run) and are never printed; maps keyed by numbers only hash by value and their order is printed and compared (gen_nummaps).', ref='DESIGN.md §2 C14')

CHECKS['C09'] = dict(
    technique='intern-table invariant hook inside every collection + reference-model differential over string-route pairs under collection schedules with address reuse',
    text='Generated programs build equal or different string content by different routes (literal, concatenation, interpolation, slice, split, char-wise rebuild, str() of numbers, case mapping, trim), compare them, use them as map keys and in has/index, with create-drop-recreate cycles; every program runs under four collection schedules with the address-reuse / poisoning allocator. A hook checks inside every collection that no two marked strings have equal content, each is the intern entry for its content, keys point into their values and entries are held strings; stdout is compared with the reference model.',
    note=_MODEL_NOTE + ' Property/method lookup by computed names has no language construct and is not exercised.', ref='DESIGN.md §2 C09')
CHECKS['C10'] = dict(
    technique='reference-model differential over generated alias/mutation histories with identity probes; clean and dirty strata keyed on generator-tracked list capacity',
    text='Straight-line mutation histories applied through aliases held in variables, nested lists, map values, map keys, fields and closures, interleaved with identity probes (==, map has/get with object keys, list/tuple has/index), compared with a model in which objects have immutable identity; also under a collection schedule. Cases in which a list outgrows its capacity while an alias is stored off a plain variable are labelled (known finding D6); everything else must agree exactly.',
    note=_MODEL_NOTE, ref='DESIGN.md §2 C10')
CHECKS['C11'] = dict(
    technique='reference-model differential: probe table over every collection/string/iterator/number native with boundary and invalid arguments + seeded random iterator pipelines and stateful collection operation sequences',
    text='About 4000 table probes (every native x normal/boundary/invalid arguments, wrong arity and kinds, multi-byte strings, callbacks that print or raise) plus seeded random iterator pipelines (shared sources, interleaved advancing, mutation in between) and stateful operation sequences on collections are run on debug and release and compared line by line and by error class with python models of sequence/map/stream semantics that follow the left-to-right lazy evaluation order.',
    note=_MODEL_NOTE + ' regexp/io/env/math modules are covered for crash freedom only (C16).', ref='DESIGN.md §2 C11')

CHECKS['C20'] = dict(
    technique='allocator-level layout monitor (global allocator wrapper), heap snapshot hook after every collection (accounting conservation), per-object size check against allocator records, idempotent second full collection, steady-state growth monitor',
    text='Every corpus program runs under collection schedules with a tracking global allocator: a dealloc whose layout differs from the allocation is reported; a hook snapshots the allocator after every collection and the checker requires bytes_allocated == sum of reported sizes of all held objects and next_gc == 2 x that; every reported object size is compared with the real block size; the intern invariant is checked; two forced full collections at exit must free nothing the second time. Steady-state loops (one per object kind and error path) run at N and 4N iterations: collector bytes, real live bytes and temporary roots must not grow.',
    note='"Exactly the reachable objects" is observed as no-growth + idempotence; the collector scans whole stack vectors, so slots above the stack top retain their last values (bounded slack). Known findings D32/D33 are keyed on the loop that fails.', ref='DESIGN.md §2 C20')

CHECKS['C17'] = dict(
    technique='reference-model differential over generated multi-file module trees; enter/exit markers turn exactly-once and ordering into a history check over stdout',
    text='Random acyclic module graphs (2-8 files, package directories, whole/renamed/selected-symbol imports in random order and multiplicity, exports of let/fn/class, functions over private counters, missing modules, non-exported and private names) are written to disk and run on debug, release and debug under a collection schedule; an enumerated family of 80 programs imports while other fibers exist (workers launched before the import that finish, park or stay runnable; module bodies that launch helpers and wait on channels; nested imports; both import forms; repeated import) and is judged by a history check over start/end/after markers against a committed per-case list (known finding D45); stdout (module enter/exit markers, received values) and the terminal outcome are compared with a reference module model with snapshot instances.',
    note=_MODEL_NOTE + ' Cyclic imports are outside the property.', ref='DESIGN.md §2 C17')

CHECKS['C18'] = dict(
    technique='reference-model differential over generated call chains: stderr traceback parsed and compared frame by frame, backTrace/message/inner printed by the program, exit status observed in-process and at the OS',
    text='Generated call chains (functions, methods, statics, initialisers, named/anonymous lambdas, native callbacks; depth 1-10) end in an explicit raise or a runtime error and are caught at the top, in a middle frame or not at all, optionally passing through one or two try blocks per frame whose clauses do not match; padding statements include string literals spanning several physical lines; the model tracks the call chain with the line numbers the printer assigned; every traceback frame (file, line, function name, native frames) and every backTrace line, the message, the inner error, the failing exit status, exit(n) for n up to 65535 and output completeness are compared on debug and release.',
    note=_MODEL_NOTE + ' One statement per physical line (the line of a call is then unambiguous); files stay far below 65535 lines (u16 line table, D26).', ref='DESIGN.md §2 C18')

CHECKS['C19'] = dict(
    technique='session-vs-file self-differential + reference model over generated prompt sessions fed line by line to the real REPL',
    text='Also generated import sessions (sites warmed, file modules with 0..6 cache sites imported mid-session, new sites on the same class afterwards; expected transcript known by construction). Generated sessions (definitions, calls into any earlier line, functions with property/invoke sites over earlier objects, classes extended later, closures over session variables, entries that fail to compile or raise, entries that define a function with call sites and then raise, each followed by probes of earlier definitions through differently named methods) are fed to Vm::repl through stdin; every fifth session launches fibers on one line and receives from them on later lines (oracle: the same lines as one file), and a fixed corpus of 240 sessions in which main also sends to earlier fibers is compared against a committed per-session list (known finding D47); the output with prompts stripped must equal the reference model and the output of the good lines run as one file; debug, release and debug under a collection schedule with address reuse.',
    note=_MODEL_NOTE + ' Every entry is one physical line (the prompt reads lines). Sessions whose file run is not clean (scheduler findings of C07/C08) are skipped.', ref='DESIGN.md §2 C19')

CHECKS['C15'] = dict(
    technique='seeded mutational fuzzing of the real front end (token/byte mutations, transplanted context-dependent statements, multi-byte characters inside tokens, truncations, token soup) + boundary inputs, phase-attributed through the compile-dump hook; libFuzzer+ASan in the thorough tier when available',
    text='Tens of thousands of seeded mutants of all repo fixtures and generated programs plus boundary inputs (nesting 256 deep for every recursive construct, 254-600 locals at function and nested-block level, 254-300 parameters/arguments/captures, an escape zoo of every escape introducer x ascii/multi-byte payload x closer, 65535-70000 constants, megabyte tokens, 66000 lines, oversized jumps) are fed to Vm::run on debug (compiler debug assertions count as panics) and release. A crash, abort, signal or timeout before the compile hook reports a finished module is a front-end violation; a compile-error status must come with a diagnostic and empty stdout. REPL survival after bad lines is covered by C19.',
    note='Inputs that are not valid UTF-8 never reach the front end (the runtime refuses to read them); nesting beyond 256 is outside the stated bound. Known finding D26 (u16 line numbers) is keyed on its boundary input.', ref='DESIGN.md §2 C15')

CHECKS['C16'] = dict(
    technique='outcome monitor (crash classifier over exit status, panic text, signals, sanitizer reports, step budget, in-VM stack monitor) over a native exerciser derived from the source, hostile program families, all corpora and accepted mutants, on debug and release (+ASan thorough)',
    text='Every native discovered by scanning NativeMetaBuilder declarations is called with 0..arity+1 arguments drawn from a 37-value zoo as plain call, bound value, .call and callback; 394 hostile families (non-callables, wrong receivers, raise of non-errors, errors in catch and str(), built-in subclassing, wrong-kind values reaching call/raise/index/iterate/inherit/catch through captured (boxed) locals, superclass expressions of every kind with and without methods that use super, recursion to the frame limit through 18 call shapes in and out of try and fibers and entered through one and two extra frames (both parities of the frame counter), cyclic str, limits, comparators, mutation during iteration, channel and exit misuse); every generated program of every kind; thousands of mutants the front end accepts. The only allowed endings are normal exit, exit code, reported deadlock or a language error with a traceback.',
    note='A crash is attributed to a known finding only by its family label plus panic site (known_findings.json: D5, D9, D12, D20, D25, D27, D39); any other crash is a violation. io/env natives run in a scratch working directory with empty stdin.', ref='DESIGN.md §2 C16')

PENDING = {}


def main():
    props = [json.loads(l) for l in open('/verif/properties.jsonl')]
    hooks_commits = subprocess.run(
        ['git', '-C', '/repo', 'log', '--format=%H %s', '--grep=^verif:'], capture_output=True, text=True
    ).stdout.strip().splitlines()
    m = {
        'version': 1,
        'setup_cmd': './setup.sh',
        'hooks': {
            'guard': 'verif (cargo feature on laythe_core and laythe_vm, off by default)',
            'enable': 'the harness crate /verif/harness depends on /repo/laythe_vm and /repo/laythe_core by path with features=["verif"]; CARGO_TARGET_DIR=/verif/target/<cfg> cargo build --offline',
            'baseline_off_cmd': '/verif/tools_baseline.sh',
            'source_commits': [c.split()[0] for c in hooks_commits],
            'add_only': True,
        },
        'engines': [
            {'name': 'lyrun', 'path': 'harness/src/bin/lyrun.rs', 'kind_free_text': 'runs one program in a fresh Vm with hook configuration (GC schedule, sweep selection, cache switch, step budget, stack monitor, intern check, snapshots, compile dump) under a monitoring global allocator (layout check, quarantine+poison, LIFO reuse)', 'serves_properties': sorted(CHECKS)},
            {'name': 'lyref/lygen', 'path': 'gen/', 'kind_free_text': 'python reference model of the language subset + seeded program generators', 'serves_properties': sorted(CHECKS)},
        ],
        'checks': [],
        'notes': 'Runtime monitoring family. All checks: ./check <ID> --tier quick|thorough; VERIF_SEED selects the random stream; exit 0 held / 1 VIOLATION / 2 machinery could not run (never with a VIOLATION line). Known findings: known_findings.json.',
        'not_applicable': [],
    }
    for p in props:
        pid = p['id']
        if pid in CHECKS:
            c = CHECKS[pid]
            m['checks'].append({
                'property_id': pid,
                'quick_cmd': './check %s --tier quick' % pid,
                'thorough_cmd': './check %s --tier thorough' % pid,
                'evidence_file': '/verif/evidence/%s.json' % pid,
                'replay_cmd_template': './check %s --replay {path}' % pid,
                'engine': 'lyrun',
                'level_claimed': {'category': c.get('category', 'exploration'), 'text': c['text'], 'design_ref': c['ref']},
                'level_note': c['note'],
                'technique': c['technique'],
            })
        else:
            m['not_applicable'].append({'property_id': pid, 'reason': PENDING.get(pid, 'check not registered yet (machinery under construction); see DESIGN.md for the planned monitor')})
    with open('/verif/MANIFEST.json', 'w') as fh:
        json.dump(m, fh, indent=1)
    try:
        import jsonschema
        jsonschema.validate(m, json.load(open('/root/.vp/MANIFEST.schema.json')))
        print('MANIFEST.json valid; %d checks, %d not claimed' % (len(m['checks']), len(m['not_applicable'])))
    except ImportError:
        print('jsonschema not available here; run with python3-vt to validate')


if __name__ == '__main__':
    main()
