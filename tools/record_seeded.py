#!/usr/bin/env python3
"""Copy a verified seeded change into /verif/seeded/<id>/ with its meta.json.
usage: record_seeded.py <src out/mK dir> <id> <property> <detected_by csv> <needs text>"""
import json
import os
import shutil
import sys

src, sid, prop, detected, needs = sys.argv[1:6]
verify_log = sys.argv[6] if len(sys.argv) > 6 else None
history = sys.argv[7] if len(sys.argv) > 7 else None
dst = os.path.join('/verif/seeded', sid)
os.makedirs(dst, exist_ok=True)
for f in os.listdir(src):
    a = os.path.join(src, f)
    if os.path.isdir(a):
        if f != 'target':
            shutil.copytree(a, os.path.join(dst, f), dirs_exist_ok=True, ignore=shutil.ignore_patterns('target'))
    elif os.path.getsize(a) < 2_000_000:
        shutil.copy(a, os.path.join(dst, f))
ran = {}
if verify_log and os.path.exists(verify_log):
    t = open(verify_log).read()
    ran['independent_verification'] = [l for l in t.split('\n') if l.startswith(('suite:', 'clean tree:', 'demo:'))]
meta = {
    'id': sid,
    'property': prop,
    'origin': 'written by an independent sub-agent that saw only the property text and a scratch worktree of /repo',
    'needs_to_manifest': needs,
    'confirmed': 'applied in the scratch worktree, built, pinned suite 592 passed / same 5 failed, demonstration matches '
                 'expected_stdout without the change and differs with it (tools/verify_seeded.sh)',
    'what_was_run': ran,
    'detected_by_quick_checks': [d for d in detected.split(',') if d],
    'how_checked': 'tools/try_seeded.sh <patch> <checks>: git -C /repo apply, ./check <ID> --tier quick, git -C /repo checkout -- .',
}
if history:
    meta['history'] = history
json.dump(meta, open(os.path.join(dst, 'meta.json'), 'w'), indent=1)
print('recorded', sid)
