#!/usr/bin/env python3
"""Run one check script; a crash of the machinery itself (uncaught exception) is exit 2, never exit 1:
exit 1 is reserved for a VIOLATION line printed by the check."""
import runpy
import sys
import traceback

script = sys.argv[1]
sys.argv = sys.argv[1:]
try:
    runpy.run_path(script, run_name='__main__')
except SystemExit as e:
    code = e.code if isinstance(e.code, int) else (0 if e.code is None else 2)
    sys.exit(code)
except BaseException:
    traceback.print_exc()
    sys.stderr.write('MACHINERY-ERROR: %s did not complete; no verdict\n' % script)
    sys.exit(2)
sys.exit(0)
