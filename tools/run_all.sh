#!/bin/bash
# run every check of one tier in order; usage: tools/run_all.sh quick|thorough [seed]
tier="${1:-quick}"; seed="${2:-0}"
cd /verif
for i in $(seq -w 1 20); do
  /usr/bin/time -f "C$i wall %es" env VERIF_SEED=$seed ./check C$i --tier $tier 2>&1 | grep -E "^(C[0-9]+ (quick|thorough)|VIOLATION|INCONCLUSIVE|STALE|C[0-9]+ wall)|Traceback" | cut -c1-170
done
