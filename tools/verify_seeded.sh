#!/bin/bash
# tools/verify_seeded.sh <worktree> <mutant dir>
# Independently confirm a seeded change inside its scratch worktree: applies, builds, the pinned suite still
# gives 592 passed / 5 failed, the demonstration matches expected_stdout without the change and differs with it.
wt="$1"; m="$2"
cd "$wt" || exit 2
git checkout -q -- . 2>/dev/null
demo="$m/demo.lay"; sess="$m/session.txt"
feat="${SEEDED_FEATURES:-}"
run_demo() {
  if [ -f "$m/demo/main.lay" ]; then (cd "$m/demo" && timeout 120 "$wt/target/debug/laythe" main.lay 2>/tmp/seeded_err.$$.txt); echo "exit=$?";
  elif [ -f "$demo" ]; then (cd "$m" && timeout 60 "$wt/target/debug/laythe" demo.lay 2>/tmp/seeded_err.$$.txt); echo "exit=$?";
  else (cd "$m" && timeout 60 "$wt/target/debug/laythe" < session.txt 2>/tmp/seeded_err.$$.txt); echo "exit=$?"; fi
}
export CARGO_NET_OFFLINE=true
cargo build -q -p laythe $feat --offline 2>/dev/null
clean=$(run_demo)
git apply "$m/patch.diff" || { echo "PATCH DOES NOT APPLY"; exit 1; }
if ! cargo build -q -p laythe $feat --offline 2>/tmp/seeded_build.$$.txt; then echo "DOES NOT BUILD"; git checkout -q -- .; exit 1; fi
mut=$(run_demo)
suite=$(cargo nextest run --workspace --no-fail-fast --offline --test-threads 16 2>&1 | grep -E "Summary" | sed 's/.*tests run: //')
git checkout -q -- .
exp=$(cat "$m/expected_stdout.txt" 2>/dev/null)
echo "suite: $suite"
if [ "$(echo "$clean" | grep -v '^exit=')" == "$exp" ]; then echo "clean tree: matches expected_stdout"; else echo "clean tree: DIFFERS from expected_stdout"; fi
if [ "$clean" == "$mut" ]; then echo "demo: SAME with and without the change (not a demonstration)"; else echo "demo: differs with the change"; fi
echo "--- clean"; echo "$clean" | tail -5; echo "--- mutant"; echo "$mut" | tail -5
