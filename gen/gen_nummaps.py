"""C14 workload: maps whose keys are all numbers (negative, fractional, huge,
-0, infinities). Number keys hash by value, not by address, so the iteration
order of such a map is a deterministic function of the program and must be the
same under both value representations; these programs print it. (Maps with
string or object keys hash by address: their order differs from run to run and
is never printed by any generator.) Self-differential only, no model."""
import random

POOL = ['0', '-0', '1', '-1', '2', '-2', '3', '-3', '-4', '-5', '-6', '0.5', '-0.5', '1.5', '-1.5', '1e10', '-1e10',
        '9007199254740992', '-9007199254740992', '1e300', '-1e300', '(1/0)', '(-1/0)', '255', '256', '-255', '-256',
        '65535', '65536', '1e19', '-1e19', '1e-300', '4294967296', '-4294967296']


def source(rng):
    r = rng
    lines = []
    for k in range(r.randint(1, 3)):
        keys = r.sample(POOL, r.randint(2, min(16, len(POOL))))
        extra = r.randint(0, 150) if r.random() < 0.3 else 0
        lines.append('let m%d = {};' % k)
        for i, key in enumerate(keys):
            lines.append('m%d[%s] = "v%d";' % (k, key, i))
        if extra:
            lines.append('for i in %d.times() { m%d[i - %d] = i; }' % (extra, k, extra // 2))
        lines.append('print(m%d.len());' % k)
        lines.append('print(m%d);' % k)
        lines.append('let ks%d = [];' % k)
        lines.append('for kv in m%d { ks%d.push(kv[0]); }' % (k, k))
        lines.append('print(ks%d);' % k)
        if r.random() < 0.5:
            victim = r.choice(keys)
            lines.append('m%d.remove(%s);' % (k, victim))
            lines.append('print(m%d.iter().map(|kv| kv[0]).list());' % k)
    lines.append('print("done");')
    return '\n'.join(lines) + '\n'
