"""C09 generator: the same string content reached by different routes,
compared / used as map keys, with create-drop-recreate cycles in between."""
import random
from lyast import *

WORDS = ['abc', 'a', '', 'ab', 'héé', 'x y', '12', 'true', 'nil', 'Abc', 'abcabc', 'q', '0.5', 'zz', 'a😀b']


def route(r, s, depth=0):
    """an expression whose value is the string s"""
    c = r.random()
    if depth > 2 or c < 0.18:
        return Str(s)
    if c < 0.34 and len(s) >= 1:
        k = r.randint(0, len(s))
        return Bin('+', route(r, s[:k], depth + 1), route(r, s[k:], depth + 1))
    if c < 0.48:
        k = r.randint(0, len(s))
        j = r.randint(k, len(s))
        parts = []
        if s[:k]:
            parts.append(s[:k])
        parts.append(route(r, s[k:j], depth + 1))
        if s[j:]:
            parts.append(s[j:])
        return Interp(parts)
    if c < 0.60:
        pre, post = r.choice(['', 'x', 'zz']), r.choice(['', 'y', 'é'])
        end = len(pre) + len(s)
        return Call(Prop(Str(pre + s + post), 'slice'), [Num(len(pre)), Num(end)])
    if c < 0.68 and ',' not in s:
        other = r.choice(['', 'k', 'zz'])
        return Call(Prop(Call(Prop(Str(s + ',' + other), 'split'), [Str(',')]), 'first'), [])
    if c < 0.76:
        try:
            v = float(s)
            from lyast import fmt_num
            if fmt_num(v) == s and v >= 0:
                return Call(Prop(Num(v), 'str'), [])
        except ValueError:
            pass
        if s == 'true':
            return Call(Prop(Bool(True), 'str'), [])
        if s == 'nil':
            return Call(Prop(Nil(), 'str'), [])
        return Str(s)
    if c < 0.84 and s == s.lower() and s.isascii():
        return Call(Prop(Str(s.upper()), 'downCase'), [])
    if c < 0.90:
        return Call(Prop(Str('  ' + s + ' '), 'trim'), []) if s == s.strip() else Str(s)
    if c < 0.96:
        return Call(Prop(route(r, s, depth + 1), 'str'), [])
    return Group(route(r, s, depth + 1))


def case(rng):
    r = rng
    stmts = []
    tags = set()
    # a helper that rebuilds a string character by character
    stmts.append(Fn('rebuild', ['s'], [Let('out', Str('')),
                                       For('c', Var('s'), [ExprS(Assign(Var('out'), Bin('+', Var('out'), Var('c'))))]),
                                       Return(Var('out'))]))
    # garbage producer: creates and drops strings so collections have something to evict
    stmts.append(Fn('churn', ['n'], [For('i', Call(Prop(Var('n'), 'times'), []),
                                         [Let('t', Interp(['tmp', Var('i')])), Let('u', Bin('+', Var('t'), Str('!')))]),
                                     Return(Nil())]))
    table = 'tbl'
    stmts.append(Let(table, MapLit([])))
    for i in range(r.randint(6, 16)):
        s1 = r.choice(WORDS)
        s2 = s1 if r.random() < 0.65 else r.choice(WORDS)
        a, b = 'a%d' % i, 'b%d' % i
        ea = route(r, s1)
        eb = route(r, s2)
        if r.random() < 0.2:
            ea = Call(Var('rebuild'), [ea])
            tags.add('rebuild')
        stmts.append(Let(a, ea))
        if r.random() < 0.5:
            stmts.append(ExprS(Call(Var('churn'), [Num(r.randint(1, 6))])))
            tags.add('churn_between')
        stmts.append(Let(b, eb))
        c = r.random()
        if c < 0.4:
            stmts.append(Print([Str('cmp'), Bin('==', Var(a), Var(b)), Bin('!=', Var(a), Var(b)),
                                Bin('<=', Var(a), Var(b)), Bin('>=', Var(a), Var(b)), Bin('<', Var(a), Var(b))]))
            tags.add('compare')
        elif c < 0.7:
            stmts.append(ExprS(Assign(Index(Var(table), Var(a)), Num(i))))
            stmts.append(Print([Str('map'), Call(Prop(Var(table), 'has'), [Var(b)]),
                                Call(Prop(Var(table), 'get'), [Var(b)]), Call(Prop(Var(table), 'len'), [])]))
            tags.add('mapkey')
        elif c < 0.85:
            stmts.append(Print([Str('has'), Call(Prop(ListLit([Var(a), Str('other')]), 'has'), [Var(b)]),
                                Call(Prop(ListLit([Str('x'), Var(a)]), 'index'), [Var(b)]),
                                Call(Prop(TupleLit([Var(a)]), 'has'), [Var(b)]),
                                Call(Prop(Var(a), 'has'), [Var(b)])]))
            tags.add('has')
        else:
            # drop, collect, recreate: an equal string created after the first one died
            stmts.append(ExprS(Assign(Var(a), Nil())))
            stmts.append(ExprS(Call(Var('churn'), [Num(r.randint(3, 9))])))
            stmts.append(ExprS(Assign(Var(a), route(r, s1))))
            stmts.append(Print([Str('recreated'), Bin('==', Var(a), route(r, s1)), Call(Prop(Var(a), 'len'), [])]))
            tags.add('recreate')
    pos = r.choice(['module', 'fn'])
    if pos == 'fn':
        import gen_core
        stmts = stmts[:2] + gen_core.wrap_position(stmts[2:], 'fn')
    return {'stmts': stmts, 'tags': tags}


def source(rng):
    import lyast
    return lyast.to_source(case(rng)['stmts'])
