"""C19 generator: prompt sessions. Every entry is one physical line."""
import random
from lyast import *


def case(rng):
    r = rng
    entries = []      # dict(kind: ok|compile_error|runtime_error, stmts | text)
    tags = set()
    u = [0]
    lets = []         # (name)
    fns = []          # (name, arity)
    classes = []      # (name, has method get, fields)
    objs = []         # (name, class)

    def uniq():
        u[0] += 1
        return u[0]

    def num_expr():
        c = r.random()
        if lets and c < 0.4:
            return Var(r.choice(lets))
        if fns and c < 0.7:
            f, ar = r.choice(fns)
            return Call(Var(f), [Num(uniq()) for _ in range(ar)])
        if objs and c < 0.9:
            o, cl = r.choice(objs)
            return Call(Prop(Var(o), r.choice(['get', 'get', 'alt', 'neg'])), []) if r.random() < 0.6 else Prop(Var(o), 'v')
        return Num(uniq())

    def probe():
        args = [Str('p%d' % uniq())]
        for _ in range(r.randint(1, 3)):
            args.append(num_expr())
        return {'kind': 'ok', 'stmts': [Print(args)]}
    n = r.randint(4, 30)
    for i in range(n):
        c = r.random()
        if c < 0.15:
            name = 'v%d' % uniq()
            entries.append({'kind': 'ok', 'stmts': [Let(name, num_expr())]})
            lets.append(name)
            tags.add('let')
        elif c < 0.32:
            name = 'f%d' % uniq()
            ar = r.randint(0, 2)
            params = ['a%d' % k for k in range(ar)]
            e = num_expr()
            for p in params:
                e = Bin('+', e, Var(p))
            body = [Return(e)]
            if objs and r.random() < 0.5:
                o, cl = r.choice(objs)
                # property and invoke sites inside a function defined on an earlier line (cache slots)
                body = [Let('t', Bin('+', Call(Prop(Var(o), 'get'), []), Prop(Var(o), 'v'))), Return(Bin('+', Var('t'), e))]
                tags.add('fn_with_cache_sites')
            entries.append({'kind': 'ok', 'stmts': [Fn(name, params, body)]})
            fns.append((name, ar))
            tags.add('fn')
        elif c < 0.36 and (lets or fns or objs):
            # earlier-line symbols used inside functions nested one, two or three levels deep on a later line
            name = 'nf%d' % uniq()
            e = num_expr()
            depth = r.choice([1, 2, 2, 3])
            own_capture = r.random() < 0.5
            inner = Lambda([], Bin('+', e, Var('own')) if own_capture else e, True)
            if depth == 1:
                body = [Let('own', Num(uniq())), Let('g', inner), Return(Call(Var('g'), []))]
            elif depth == 2:
                body = [Let('own', Num(uniq())),
                        Fn('mid', [], [Return(inner)]), Return(Call(Call(Var('mid'), []), []))]
            else:
                body = [Let('own', Num(uniq())),
                        Fn('mid', [], [Fn('low', [], [Return(inner)]), Return(Call(Var('low'), []))]),
                        Return(Call(Call(Var('mid'), []), []))]
            if not own_capture:
                body = body[1:]
            entries.append({'kind': 'ok', 'stmts': [Fn(name, [], body)]})
            fns.append((name, 0))
            tags.add('nested_fn_depth%d%s' % (depth, '_own_capture' if own_capture else ''))
        elif c < 0.44:
            name = 'K%d' % uniq()
            parent = None
            if classes and r.random() < 0.4:
                parent = r.choice(classes)
                tags.add('subclass_later_line')
            if parent:
                init = Fn('init', [], [ExprS(Call(Super('init'), [])), ExprS(Assign(Prop(Self(), 'w'), Num(uniq())))])
                methods = [Fn('get', [], [Return(Bin('+', Call(Super('get'), []), At('w')))])]
            else:
                init = Fn('init', [], [ExprS(Assign(Prop(Self(), 'v'), Num(uniq())))])
                methods = [Fn('get', [], [Return(Bin('+', At('v'), Num(1)))]),
                           Fn('alt', [], [Return(Bin('*', At('v'), Num(3)))]),
                           Fn('neg', [], [Return(Bin('-', Num(0), At('v')))]),
                           Fn('bump', [], [ExprS(OpAssign(Prop(Self(), 'v'), '+', Num(1))), Return(At('v'))])]
            entries.append({'kind': 'ok', 'stmts': [Class(name, parent, init, methods)]})
            classes.append(name)
            tags.add('class')
        elif c < 0.54 and classes:
            name = 'o%d' % uniq()
            cl = r.choice(classes)
            entries.append({'kind': 'ok', 'stmts': [Let(name, Call(Var(cl), []))]})
            objs.append((name, cl))
        elif c < 0.60 and lets:
            v = r.choice(lets)
            entries.append({'kind': 'ok', 'stmts': [ExprS(Assign(Var(v), num_expr()))]})
            tags.add('assign')
        elif c < 0.66 and lets:
            name = 'c%d' % uniq()
            v = r.choice(lets)
            entries.append({'kind': 'ok', 'stmts': [Let(name, Lambda([], Bin('+', Var(v), Num(1)), True))]})
            fns.append((name, 0))
            tags.add('closure_over_session_var')
        elif c < 0.74:
            kind = r.choice(['syntax', 'undeclared', 'redeclare', 'unterminated'])
            if kind == 'syntax':
                text = 'print(1 +);'
            elif kind == 'undeclared':
                text = 'print(never_declared_%d);' % uniq()
            elif kind == 'redeclare' and lets:
                text = 'let %s = 99;' % r.choice(lets)
            else:
                text = 'fn broken( { return 1; }'
            entries.append({'kind': 'compile_error', 'text': text})
            entries.append(probe())
            tags.add('bad:' + kind)
        elif c < 0.80 and objs:
            # an entry that first defines a function with invoke/property sites and then fails: the definition made
            # before the error stays usable, and later entries get fresh sites
            name = 'g%d' % uniq()
            o, cl = r.choice(objs)
            meth = r.choice(['get', 'alt', 'neg'])
            body = [Return(Bin('+', Call(Prop(Var('x'), meth), []), Prop(Var('x'), 'v')))]
            fail = r.choice([ExprS(Call(Var(name), [Nil()])), Raise(Call(Var('Error'), [Str('boom%d' % uniq())])),
                             ExprS(Call(Prop(Var(o), 'nomethod'), []))])
            entries.append({'kind': 'runtime_error', 'stmts': [Fn(name, ['x'], body), fail],
                            'file_stmts': [Fn(name, ['x'], body)]})
            tags.add('define_then_fail')
            for _ in range(r.randint(1, 3)):
                o2, cl2 = r.choice(objs)
                m2 = r.choice(['get', 'alt', 'neg', 'bump'])
                entries.append({'kind': 'ok', 'stmts': [Print([Str('q%d' % uniq()), Call(Prop(Var(o2), m2), []),
                                                               Prop(Var(o2), 'v')])]})
                entries.append({'kind': 'ok', 'stmts': [Print([Str('q%d' % uniq()), Call(Var(name), [Var(o2)])])]})
        elif c < 0.86:
            kind = r.choice(['raise', 'operator', 'call_nil'])
            if kind == 'raise':
                st = [Raise(Call(Var('Error'), [Str('boom%d' % uniq())]))]
            elif kind == 'operator':
                st = [Let('bad%d' % uniq(), Bin('-', Nil(), Num(1)))]
            else:
                st = [ExprS(Call(Nil(), []))]
            entries.append({'kind': 'runtime_error', 'stmts': st})
            entries.append(probe())
            tags.add('bad:' + kind)
        else:
            entries.append(probe())
    entries.append(probe())
    return {'entries': entries, 'tags': tags}


def chan_case(rng, kinds=('producer', 'producer', 'echo', 'accumulate')):
    """sessions whose fibers live across prompt lines: launched on one line, communicated with on later lines.
    No model: the oracle is the same lines run as one file. Every channel has one sender and main is the only
    receiver (or the reverse), workers never print, so the printed values do not depend on scheduling."""
    r = rng
    lines = []
    tags = set()
    u = [0]

    def uniq():
        u[0] += 1
        return u[0]
    pending = []          # (channel, count) receives main still owes
    filler_vars = []

    def filler():
        c = r.random()
        if c < 0.4:
            n = 'u%d' % uniq()
            filler_vars.append(n)
            lines.append('let %s = %d + %d;' % (n, uniq(), uniq()))
        elif c < 0.7 and filler_vars:
            lines.append('print("f", %s);' % r.choice(filler_vars))
        else:
            lines.append('print("f%d");' % uniq())
    for k in range(r.randint(1, 4)):
        ch = 'ch%d' % uniq()
        cap = r.choice(['', '1', '2', '5'])
        kind = r.choice(list(kinds))
        tags.add('chan:' + kind)
        lines.append('let %s = chan(%s);' % (ch, cap))
        for _ in range(r.randint(0, 2)):
            filler()
        if kind == 'producer':
            n = r.randint(1, 4)
            w = 'w%d' % uniq()
            lines.append('fn %s(a) { %s }' % (w, ' '.join('%s <- a * %d + %d;' % (ch, i + 2, uniq()) for i in range(n))))
            for _ in range(r.randint(0, 2)):
                filler()
            lines.append('launch %s(%d);' % (w, uniq()))
            pending.append((ch, n))
        elif kind == 'echo':
            out = 'out%d' % uniq()
            lines.append('let %s = chan(%s);' % (out, r.choice(['', '1'])))
            w = 'w%d' % uniq()
            n = r.randint(1, 3)
            lines.append('fn %s() { for i in %d.times() { %s <- (<-%s) + %d; } }' % (w, n, out, ch, uniq()))
            lines.append('launch %s();' % w)
            for i in range(n):
                for _ in range(r.randint(0, 2)):
                    filler()
                lines.append('%s <- %d;' % (ch, uniq()))
                if r.random() < 0.5:
                    filler()
                lines.append('print("e", <-%s);' % out)
        else:
            w = 'w%d' % uniq()
            n = r.randint(2, 4)
            res = 'res%d' % uniq()
            lines.append('let %s = chan(%s);' % (res, r.choice(['', '1'])))
            lines.append('fn %s() { let t = 0; for i in %d.times() { t = t + (<-%s); } %s <- t; }' % (w, n, ch, res))
            lines.append('launch %s();' % w)
            for i in range(n):
                if r.random() < 0.5:
                    filler()
                lines.append('%s <- %d;' % (ch, uniq()))
            pending.append((res, 1))
        # pay some of the owed receives now, the rest later
        r.shuffle(pending)
        while pending and r.random() < 0.6:
            ch2, cnt = pending.pop()
            for i in range(cnt):
                if r.random() < 0.4:
                    filler()
                lines.append('print("r", <-%s);' % ch2)
    while pending:
        ch2, cnt = pending.pop()
        for i in range(cnt):
            if r.random() < 0.4:
                filler()
            lines.append('print("r", <-%s);' % ch2)
    lines.append('print("end");')
    return {'lines': lines, 'tags': tags}
