"""C19 generator: prompt sessions. Every entry is one physical line."""
import random
from lyast import *


def case(rng):
    r = rng
    entries = []      # dict(kind: ok|compile_error|runtime_error, stmts | text)
    tags = set()
    u = [0]
    lets = []         # (name)
    fns = []          # (name, arity)
    classes = []      # (name, has method get, fields)
    objs = []         # (name, class)

    def uniq():
        u[0] += 1
        return u[0]

    def num_expr():
        c = r.random()
        if lets and c < 0.4:
            return Var(r.choice(lets))
        if fns and c < 0.7:
            f, ar = r.choice(fns)
            return Call(Var(f), [Num(uniq()) for _ in range(ar)])
        if objs and c < 0.9:
            o, cl = r.choice(objs)
            return Call(Prop(Var(o), 'get'), []) if r.random() < 0.6 else Prop(Var(o), 'v')
        return Num(uniq())

    def probe():
        args = [Str('p%d' % uniq())]
        for _ in range(r.randint(1, 3)):
            args.append(num_expr())
        return {'kind': 'ok', 'stmts': [Print(args)]}
    n = r.randint(4, 30)
    for i in range(n):
        c = r.random()
        if c < 0.15:
            name = 'v%d' % uniq()
            entries.append({'kind': 'ok', 'stmts': [Let(name, num_expr())]})
            lets.append(name)
            tags.add('let')
        elif c < 0.32:
            name = 'f%d' % uniq()
            ar = r.randint(0, 2)
            params = ['a%d' % k for k in range(ar)]
            e = num_expr()
            for p in params:
                e = Bin('+', e, Var(p))
            body = [Return(e)]
            if objs and r.random() < 0.5:
                o, cl = r.choice(objs)
                # property and invoke sites inside a function defined on an earlier line (cache slots)
                body = [Let('t', Bin('+', Call(Prop(Var(o), 'get'), []), Prop(Var(o), 'v'))), Return(Bin('+', Var('t'), e))]
                tags.add('fn_with_cache_sites')
            entries.append({'kind': 'ok', 'stmts': [Fn(name, params, body)]})
            fns.append((name, ar))
            tags.add('fn')
        elif c < 0.44:
            name = 'K%d' % uniq()
            parent = None
            if classes and r.random() < 0.4:
                parent = r.choice(classes)
                tags.add('subclass_later_line')
            if parent:
                init = Fn('init', [], [ExprS(Call(Super('init'), [])), ExprS(Assign(Prop(Self(), 'w'), Num(uniq())))])
                methods = [Fn('get', [], [Return(Bin('+', Call(Super('get'), []), At('w')))])]
            else:
                init = Fn('init', [], [ExprS(Assign(Prop(Self(), 'v'), Num(uniq())))])
                methods = [Fn('get', [], [Return(Bin('+', At('v'), Num(1)))]),
                           Fn('bump', [], [ExprS(OpAssign(Prop(Self(), 'v'), '+', Num(1))), Return(At('v'))])]
            entries.append({'kind': 'ok', 'stmts': [Class(name, parent, init, methods)]})
            classes.append(name)
            tags.add('class')
        elif c < 0.54 and classes:
            name = 'o%d' % uniq()
            cl = r.choice(classes)
            entries.append({'kind': 'ok', 'stmts': [Let(name, Call(Var(cl), []))]})
            objs.append((name, cl))
        elif c < 0.60 and lets:
            v = r.choice(lets)
            entries.append({'kind': 'ok', 'stmts': [ExprS(Assign(Var(v), num_expr()))]})
            tags.add('assign')
        elif c < 0.66 and lets:
            name = 'c%d' % uniq()
            v = r.choice(lets)
            entries.append({'kind': 'ok', 'stmts': [Let(name, Lambda([], Bin('+', Var(v), Num(1)), True))]})
            fns.append((name, 0))
            tags.add('closure_over_session_var')
        elif c < 0.74:
            kind = r.choice(['syntax', 'undeclared', 'redeclare', 'unterminated'])
            if kind == 'syntax':
                text = 'print(1 +);'
            elif kind == 'undeclared':
                text = 'print(never_declared_%d);' % uniq()
            elif kind == 'redeclare' and lets:
                text = 'let %s = 99;' % r.choice(lets)
            else:
                text = 'fn broken( { return 1; }'
            entries.append({'kind': 'compile_error', 'text': text})
            entries.append(probe())
            tags.add('bad:' + kind)
        elif c < 0.82:
            kind = r.choice(['raise', 'operator', 'call_nil'])
            if kind == 'raise':
                st = [Raise(Call(Var('Error'), [Str('boom%d' % uniq())]))]
            elif kind == 'operator':
                st = [Let('bad%d' % uniq(), Bin('-', Nil(), Num(1)))]
            else:
                st = [ExprS(Call(Nil(), []))]
            entries.append({'kind': 'runtime_error', 'stmts': st})
            entries.append(probe())
            tags.add('bad:' + kind)
        else:
            entries.append(probe())
    entries.append(probe())
    return {'entries': entries, 'tags': tags}
