"""C13 workload: class factories (mixins). Every factory call declares a new
class extending its argument, so ONE `super.m()` / `super.m` / `self.m()` site
is reached with many (receiver class, super class) combinations: different
bases under the same mixin, and the same mixin stacked several times in one
chain, where the inner layer reaches the site with the same receiver but a
different super class while the outer layer is still inside its super call."""
import random


def source(rng):
    r = rng
    n_base = r.randint(2, 3)
    n_mix = r.randint(2, 3)
    lines = ['let depth = 0;']
    for b in range(n_base):
        lines.append('class Base%d {' % b)
        lines.append('  init(t) { self.t = t; self.b = "b%d"; }' % b)
        lines.append('  describe() { return "base%d:" + self.t; }' % b)
        lines.append('  val(x) { return x + %d; }' % (b + 1))
        if r.random() < 0.6:
            lines.append('  static make(t) { return "made%d" + t; }' % b)
        else:
            lines.append('  static make(t) { return "mk%d" + t; }' % b)
        lines.append('  only%d() { return %d; }' % (b, b))
        lines.append('}')
    for m in range(n_mix):
        via_value = r.random() < 0.4
        lam = r.random() < 0.3
        lines.append('fn Mix%d(Base) {' % m)
        lines.append('  class M%d : Base {' % m)
        lines.append('    init(t) { super.init(t + "%d"); self.m%d = %d; }' % (m, m, m))
        lines.append('    describe() {')
        lines.append('      depth = depth + 1;')
        lines.append('      if depth > 60 { return "RUNAWAY"; }')
        if via_value:
            lines.append('      let f = super.describe;')
            lines.append('      let inner = f();')
        elif lam:
            lines.append('      let g = || super.describe();')
            lines.append('      let inner = g();')
        else:
            lines.append('      let inner = super.describe();')
        lines.append('      depth = depth - 1;')
        lines.append('      return "m%d(" + inner + ")";' % m)
        lines.append('    }')
        lines.append('    val(x) {')
        lines.append('      depth = depth + 1;')
        lines.append('      if depth > 60 { return -1000; }')
        lines.append('      let v = super.val(x) * 2 + %d;' % m)
        lines.append('      depth = depth - 1;')
        lines.append('      return v;')
        lines.append('    }')
        lines.append('    both() { return "${self.describe()}/${self.val(1)}"; }')
        lines.append('  }')
        lines.append('  return M%d;' % m)
        lines.append('}')
    # compositions
    n_comp = r.randint(3, 6)
    comps = []
    for c in range(n_comp):
        depth = r.choice([1, 1, 2, 2, 3, 4])
        base = 'Base%d' % r.randrange(n_base)
        expr = base
        first = r.randrange(n_mix)
        for d in range(depth):
            # the same mixin repeated in one chain is the interesting case
            k = first if r.random() < 0.6 else r.randrange(n_mix)
            expr = 'Mix%d(%s)' % (k, expr)
        comps.append(expr)
        lines.append('let K%d = %s;' % (c, expr))
    lines.append('let ks = [%s];' % ', '.join('K%d' % c for c in range(n_comp)))
    lines.append('fn useDescribe(o) { return o.describe(); }')
    lines.append('fn useVal(o, x) { return o.val(x); }')
    order = [r.randrange(n_comp) for _ in range(r.randint(8, 24))]
    lines.append('for i in [%s] {' % ', '.join(str(x) for x in order))
    lines.append('  let o = ks[i]("t");')
    lines.append('  depth = 0;')
    lines.append('  print(i, useDescribe(o), useVal(o, i), o.both(), o.t, depth);')
    lines.append('}')
    # factories called again late: new classes, the same sites
    for c in range(r.randint(1, 3)):
        expr = r.choice(comps)
        lines.append('depth = 0;')
        lines.append('print((%s)("late").describe(), depth);' % expr)
    lines.append('print("done");')
    return '\n'.join(lines) + '\n'
