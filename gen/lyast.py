"""AST for the Laythe subset the generators produce, and a printer that turns
an AST into Laythe text under a layout policy while recording the physical
line every node starts on."""
import random


class N:
    """AST node: kind + fields. Fields are free form per kind (see printer)."""
    __slots__ = ('k', 'line', 'decl', 'a', 'b', 'c', 'd', 'e', 'x')

    def __init__(self, k, a=None, b=None, c=None, d=None, e=None):
        self.k = k
        self.a = a
        self.b = b
        self.c = c
        self.d = d
        self.e = e
        self.line = 0
        self.decl = None
        self.x = None

    def __repr__(self):
        return 'N(%s,%r,%r,%r)' % (self.k, self.a, self.b, self.c)


# ---- expression constructors ------------------------------------------------
def Num(v): return N('num', float(v))
def Str(s): return N('str', s)
def Bool(v): return N('bool', bool(v))
def Nil(): return N('nil')
def Interp(parts): return N('interp', parts)            # parts: str | expr
def ListLit(items): return N('list', list(items))
def TupleLit(items): return N('tuple', list(items))
def MapLit(pairs): return N('map', list(pairs))
def Var(name): return N('var', name)
def Assign(target, value): return N('assign', target, value)
def OpAssign(target, op, value): return N('opassign', target, op, value)
def Bin(op, l, r): return N('bin', op, l, r)
def Un(op, e): return N('un', op, e)
def And(l, r): return N('and', l, r)
def Or(l, r): return N('or', l, r)
def Tern(c, a, b): return N('tern', c, a, b)
def Group(e): return N('group', e)
def Call(callee, args): return N('call', callee, list(args))
def Prop(obj, name): return N('prop', obj, name)
def Index(obj, idx): return N('index', obj, idx)
def Self(): return N('self')
def At(name): return N('at', name)                      # @name
def Super(name): return N('super', name)                # super.name
def Lambda(params, body, is_expr): return N('lambda', list(params), body, is_expr)
def Recv(ch): return N('recv', ch)                      # <- ch
def Send(ch, v): return N('send', ch, v)                # ch <- v
def Chan(cap=None): return N('chan', cap)
def Launch(call): return N('launch', call)
def Raw(text): return N('raw', text)                    # verbatim expression text


# ---- statement constructors -------------------------------------------------
def Let(name, init=None): return N('let', name, init)
def ExprS(e): return N('expr', e)
def Print(args): return N('expr', Call(Var('print'), args))
def If(cond, then, elifs=None, els=None): return N('if', cond, then, elifs or [], els)
def While(cond, body): return N('while', cond, body)
def For(var, it, body): return N('for', var, it, body)
def Break(): return N('break')
def Continue(): return N('continue')
def Return(e=None): return N('return', e)
def Implicit(e): return N('implicit', e)                # expression without ';' = implicit return
def Fn(name, params, body): return N('fn', name, list(params), body)
def Class(name, sup, init, methods, statics=None): return N('class', name, sup, init, list(methods), list(statics or []))
def Try(body, catches): return N('try', body, list(catches))   # catches: (var, classname|None, body)
def Raise(e): return N('raise', e)
def Block(stmts): return N('block', list(stmts))
def Import(path, alias=None, symbols=None): return N('import', list(path), alias, symbols)
def Export(decl): return N('export', decl)
def RawS(text): return N('raws', text)                  # verbatim statement text
def LaunchS(call): return N('expr', Launch(call))


PREC = {
    'assign': 1, 'opassign': 1, 'send': 1, 'tern': 2, 'or': 3, 'and': 4,
    '==': 5, '!=': 5, '<': 6, '<=': 6, '>': 6, '>=': 6,
    '+': 7, '-': 7, '*': 8, '/': 8, 'un': 9, 'recv': 9, 'call': 10, 'lambda': 1,
}


def fmt_num(v):
    """Rust's Display for f64: shortest round-trip digits, positional."""
    if v != v:
        return 'NaN'
    if v == float('inf'):
        return 'inf'
    if v == float('-inf'):
        return '-inf'
    r = repr(float(v))
    neg = r.startswith('-')
    if neg:
        r = r[1:]
    if 'e' in r or 'E' in r:
        mant, exp = r.lower().split('e')
        exp = int(exp)
        if '.' in mant:
            ip, fp = mant.split('.')
        else:
            ip, fp = mant, ''
        digits = ip + fp
        point = len(ip) + exp
        if point <= 0:
            s = '0.' + '0' * (-point) + digits
        elif point >= len(digits):
            s = digits + '0' * (point - len(digits))
        else:
            s = digits[:point] + '.' + digits[point:]
    else:
        s = r
    if '.' in s:
        s = s.rstrip('0').rstrip('.')
    return ('-' if neg else '') + s


def num_literal(v):
    """Source text for a non-negative finite number literal."""
    s = fmt_num(v)
    return s


def num_varied(v, rng):
    """other spellings of the same non-negative finite number"""
    s = num_literal(v)
    c = rng.random()
    if c < 0.6:
        return s
    if c < 0.75 and '.' not in s and 'e' not in s:
        return s + '.0'
    if c < 0.9 and v == int(v) and v >= 10 and v % 10 == 0 and v < 1e15:
        k = 0
        iv = int(v)
        while iv % 10 == 0 and iv > 0:
            iv //= 10
            k += 1
        return '%de%d' % (iv, k)
    if v != 0 and v < 1 and v * 1000 == int(v * 1000):
        return '%de-3' % int(v * 1000)
    return s


class Printer:
    """Emits Laythe text. layout=None gives the canonical one-statement-per-line
    form; a random.Random gives varied whitespace, redundant parentheses,
    comments and blank lines (statements still start on fresh lines unless
    `wild` is set, in which case newlines may fall between any two tokens)."""

    def __init__(self, layout=None, wild=False, indent='  ', parens=0.0, comments=0.0, blank=0.0, raw_newlines=0.0):
        self.rng = layout
        self.raw_newlines = raw_newlines if layout is not None else 0.0
        self.wild = wild and layout is not None
        self.ind = indent
        self.parens = parens if layout is not None else 0.0
        self.comments = comments if layout is not None else 0.0
        self.blank = blank if layout is not None else 0.0
        self.buf = []
        self.line = 1
        self.depth = 0
        self.at_line_start = True

    # -- low level ----------------------------------------------------------
    def w(self, text):
        if not text:
            return
        if self.at_line_start:
            self.buf.append(self.ind * self.depth)
            self.at_line_start = False
        self.buf.append(text)
        self.line += text.count('\n')

    def sp(self):
        """token separator: a space, or under the wild layout maybe a newline"""
        if self.wild and self.rng.random() < 0.12:
            self.nl()
        else:
            self.w(' ')

    def gap(self):
        """optional separator (may be empty)"""
        if self.wild and self.rng.random() < 0.08:
            self.nl()

    def nl(self):
        self.buf.append('\n')
        self.line += 1
        self.at_line_start = True

    def end_stmt(self):
        if self.rng is not None and self.rng.random() < self.comments:
            self.w(' // c' + str(self.rng.randrange(100)))
        self.nl()
        if self.rng is not None:
            while self.rng.random() < self.blank:
                if self.rng.random() < 0.5:
                    self.w('// pad')
                self.nl()

    def text(self):
        return ''.join(self.buf)

    # -- expressions --------------------------------------------------------
    def expr(self, n, ctx=0):
        """ctx: minimum precedence allowed without parentheses"""
        k = n.k
        p = self.prec(n)
        need = p < ctx
        extra = (not need) and self.parens and self.rng.random() < self.parens and k not in ('raw', 'self')
        if need or extra:
            self.w('(')
            self.gap()
            self.expr_inner(n)
            self.gap()
            self.w(')')
        else:
            self.expr_inner(n)

    def prec(self, n):
        k = n.k
        if k == 'bin':
            return PREC[n.a]
        if k == 'num' and (n.a < 0 or (n.a == 0 and str(n.a).startswith('-'))):
            return PREC['un']
        return PREC.get(k, 11)

    def expr_inner(self, n):
        k = n.k
        if n.line == 0:
            n.line = self.line
        else:
            n.line = self.line
        if k == 'num':
            v = n.a
            if v != v:
                self.w('(0/0)')
            elif v == float('inf'):
                self.w('(1/0)')
            elif v == float('-inf'):
                self.w('(-1/0)')
            elif v < 0 or (v == 0 and str(v).startswith('-')):
                self.w('-' + num_literal(-v))
            else:
                self.w(num_varied(v, self.rng) if self.rng is not None else num_literal(v))
        elif k == 'str':
            if self.raw_newlines and '\n' in n.a and self.rng.random() < self.raw_newlines:
                # a literal spanning several physical lines (w() counts them)
                self.w(quote_varied(n.a, self.rng).replace('\\n', '\n'))
            elif self.rng is not None and self.rng.random() < 0.5:
                self.w(quote_varied(n.a, self.rng))
            else:
                self.w(quote(n.a))
        elif k == 'bool':
            self.w('true' if n.a else 'false')
        elif k == 'nil':
            self.w('nil')
        elif k == 'raw':
            self.w(n.a)
        elif k == 'interp':
            self.w('"')
            for part in n.a:
                if isinstance(part, str):
                    self.w(escape(part))
                else:
                    self.w('${')
                    sub = Printer()
                    sub.line = self.line
                    sub.expr(part)
                    self.w(sub.text())
                    self.w('}')
            self.w('"')
        elif k in ('list', 'tuple'):
            self.w('[' if k == 'list' else '(')
            for i, it in enumerate(n.a):
                if i:
                    self.w(',')
                    self.sp()
                self.expr(it, 2)
            if k == 'tuple' and len(n.a) == 1:
                self.w(',')
            self.w(']' if k == 'list' else ')')
        elif k == 'map':
            self.w('{')
            for i, (kk, vv) in enumerate(n.a):
                if i:
                    self.w(',')
                self.sp()
                self.expr(kk, 2)
                self.w(':')
                self.sp()
                self.expr(vv, 2)
            if n.a:
                self.sp()
            self.w('}')
        elif k == 'var':
            self.w(n.a)
        elif k == 'self':
            self.w('self')
        elif k == 'at':
            self.w('@' + n.a)
        elif k == 'super':
            self.w('super.' + n.a)
        elif k == 'assign':
            self.expr_inner(n.a)
            self.sp()
            self.w('=')
            self.sp()
            self.expr(n.b, 1 if n.b.k == 'assign' else 2)
        elif k == 'opassign':
            self.expr_inner(n.a)
            self.sp()
            self.w(n.b + '=')
            self.sp()
            self.expr(n.c, 2)
        elif k == 'send':
            self.expr(n.a, 10)
            self.w(' <- ')
            self.expr(n.b, 2)
        elif k == 'recv':
            self.w('<- ')
            self.expr(n.a, 10)
        elif k == 'chan':
            self.w('chan(')
            if n.a is not None:
                self.expr(n.a, 2)
            self.w(')')
        elif k == 'launch':
            self.w('launch ')
            self.expr(n.a, 10)
        elif k == 'bin':
            p = PREC[n.a]
            self.expr(n.b, p)
            self.sp()
            self.w(n.a)
            self.sp()
            self.expr(n.c, p + 1)
        elif k == 'un':
            self.w(n.a)
            # avoid "--x" being scanned as something else
            inner = n.b
            if n.a == '-' and self.prec(inner) == PREC['un'] and inner.k in ('un', 'num'):
                self.w('(')
                self.expr_inner(inner)
                self.w(')')
            else:
                self.expr(inner, PREC['un'])
        elif k == 'and':
            self.expr(n.a, PREC['and'])
            self.sp()
            self.w('&&')
            self.sp()
            self.expr(n.b, PREC['and'] + 1)
        elif k == 'or':
            self.expr(n.a, PREC['or'])
            self.sp()
            self.w('||')
            self.sp()
            self.expr(n.b, PREC['or'] + 1)
        elif k == 'tern':
            self.expr(n.a, PREC['or'])
            self.sp()
            self.w('?')
            self.sp()
            self.expr(n.b, PREC['tern'])
            self.sp()
            self.w(':')
            self.sp()
            self.expr(n.c, PREC['tern'])
        elif k == 'group':
            self.w('(')
            self.expr(n.a, 0)
            self.w(')')
        elif k == 'call':
            self.expr(n.a, 10)
            self.w('(')
            for i, a in enumerate(n.b):
                if i:
                    self.w(',')
                    self.sp()
                self.expr(a, 2)
            self.w(')')
        elif k == 'prop':
            self.expr(n.a, 10)
            self.w('.' + n.b)
        elif k == 'index':
            self.expr(n.a, 10)
            self.w('[')
            self.expr(n.b, 2)
            self.w(']')
        elif k == 'lambda':
            self.w('|' + ', '.join(n.a) + '|')
            self.w(' ')
            if n.c:
                self.expr(n.b, 2)
            else:
                self.block(n.b, inline=True)
        else:
            raise ValueError('unknown expr kind ' + k)

    # -- statements ---------------------------------------------------------
    def block(self, stmts, inline=False):
        self.w('{')
        self.nl()
        self.depth += 1
        for s in stmts:
            self.stmt(s)
        self.depth -= 1
        self.w('}')
        if not inline:
            self.nl()

    def stmt(self, n):
        k = n.k
        n.line = self.line
        if k == 'let':
            self.w('let ' + n.a)
            if n.b is not None:
                self.w(' =')
                self.sp()
                self.expr(n.b, 1)
            self.w(';')
            self.end_stmt()
        elif k == 'expr':
            self.expr(n.a, 0)
            self.w(';')
            self.end_stmt()
        elif k == 'implicit':
            self.expr(n.a, 0)
            self.nl()
        elif k == 'raws':
            self.w(n.a)
            self.nl()
        elif k == 'if':
            self.w('if ')
            self.expr(n.a, 2)
            self.w(' ')
            self.block(n.b, inline=True)
            for c, b in n.c:
                self.w(' else if ')
                self.expr(c, 2)
                self.w(' ')
                self.block(b, inline=True)
            if n.d is not None:
                self.w(' else ')
                self.block(n.d, inline=True)
            self.nl()
        elif k == 'while':
            self.w('while ')
            self.expr(n.a, 2)
            self.w(' ')
            self.block(n.b)
        elif k == 'for':
            self.w('for ' + n.a + ' in ')
            self.expr(n.b, 2)
            self.w(' ')
            self.block(n.c)
        elif k == 'break':
            self.w('break;')
            self.end_stmt()
        elif k == 'continue':
            self.w('continue;')
            self.end_stmt()
        elif k == 'return':
            self.w('return')
            if n.a is not None:
                self.w(' ')
                self.expr(n.a, 1)
            self.w(';')
            self.end_stmt()
        elif k == 'fn':
            self.w('fn ' + n.a + '(' + ', '.join(n.b) + ') ')
            self.block(n.c)
        elif k == 'class':
            self.w('class ' + n.a)
            if n.b:
                self.w(' : ' + n.b)
            self.w(' {')
            self.nl()
            self.depth += 1
            if n.c is not None:
                self.method(n.c)
            for m in n.d:
                self.method(m)
            for m in n.e:
                self.w('static ')
                self.method(m)
            self.depth -= 1
            self.w('}')
            self.nl()
        elif k == 'try':
            self.w('try ')
            self.block(n.a, inline=True)
            for var, cls, body in n.b:
                self.w(' catch ' + var)
                if cls:
                    self.w(': ' + cls)
                self.w(' ')
                self.block(body, inline=True)
            self.nl()
        elif k == 'raise':
            self.w('raise ')
            self.expr(n.a, 1)
            self.w(';')
            self.end_stmt()
        elif k == 'block':
            self.block(n.a)
        elif k == 'import':
            self.w('import ' + '.'.join(n.a))
            if n.c is not None:
                self.w(':{' + ', '.join((s if a is None else s + ' as ' + a) for s, a in n.c) + '}')
            elif n.b:
                self.w(' as ' + n.b)
            self.w(';')
            self.end_stmt()
        elif k == 'export':
            self.w('export ')
            self.stmt(n.a)
        else:
            raise ValueError('unknown stmt kind ' + k)

    def method(self, m):
        # m is an Fn node
        m.line = self.line
        self.w(m.a + '(' + ', '.join(m.b) + ') ')
        self.block(m.c)

    def program(self, stmts):
        for s in stmts:
            self.stmt(s)
        return self.text()


def escape(s):
    out = []
    for c in s:
        if c == '\\':
            out.append('\\\\')
        elif c == '"':
            out.append('\\"')
        elif c == '\n':
            out.append('\\n')
        elif c == '\t':
            out.append('\\t')
        else:
            out.append(c)
    return ''.join(out)


def quote(s):
    return '"' + escape(s) + '"'


def quote_varied(s, rng):
    """the same string value spelled differently: single quotes, unicode
    escapes for some characters, \\r \\t \\0 escapes"""
    q = rng.choice(['"', "'"])
    out = []
    for c in s:
        if c == '\\':
            out.append('\\\\')
        elif c == q:
            out.append('\\' + q)
        elif c == '\n':
            out.append('\\n')
        elif c == '\t':
            out.append('\\t')
        elif c == '\r':
            out.append('\\r')
        elif c == '$':
            out.append('$')
        elif (ord(c) > 127 or c.isalpha()) and rng.random() < 0.3:
            out.append('\\u{%x}' % ord(c))
        else:
            out.append(c)
    return q + ''.join(out) + q


def to_source(stmts, layout=None, **kw):
    p = Printer(layout, **kw)
    return p.program(stmts)
