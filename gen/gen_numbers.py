"""C14 workload: IEEE facts and number/bool/nil behaviour that the two value
representations must share (and that the reference model knows)."""
import random
from lyast import *

SPECIAL = [0.0, -0.0, 1.0, -1.0, 0.5, 2.0, 1e308, 5e-324, float('inf'), float('-inf'), float('nan'),
           9007199254740992.0, 0.1, 0.2, 1e21, 1e-7, 3.0, 7.0, 255.0]


def num(r):
    v = r.choice(SPECIAL)
    return Num(v)


def nexpr(r, depth=0):
    if depth > 2 or r.random() < 0.35:
        return num(r)
    c = r.random()
    if c < 0.7:
        return Bin(r.choice(['+', '-', '*', '/']), nexpr(r, depth + 1), nexpr(r, depth + 1))
    if c < 0.8:
        return Un('-', nexpr(r, depth + 1))
    return Call(Prop(Group(nexpr(r, depth + 1)), r.choice(['floor', 'ceil', 'round'])), [])


def case(rng):
    r = rng
    stmts = []
    tags = set()
    for i in range(r.randint(8, 20)):
        a, b = 'a%d' % i, 'b%d' % i
        stmts.append(Let(a, nexpr(r)))
        stmts.append(Let(b, nexpr(r)))
        c = r.random()
        if c < 0.3:
            stmts.append(Print([Str('cmp'), Bin('==', Var(a), Var(b)), Bin('!=', Var(a), Var(b)), Bin('<', Var(a), Var(b)),
                                Bin('<=', Var(a), Var(b)), Bin('>', Var(a), Var(b)), Bin('>=', Var(a), Var(b)),
                                Bin('==', Var(a), Var(a))]))
            tags.add('compare')
        elif c < 0.45:
            stmts.append(Print([Str('val'), Var(a), Var(b), Bin('+', Var(a), Var(b)), Bin('*', Var(a), Var(b))]))
            tags.add('print')
        elif c < 0.6:
            stmts.append(Print([Str('has'), Call(Prop(ListLit([Var(a), Num(1)]), 'has'), [Var(b)]),
                                Call(Prop(ListLit([Var(b), Var(a)]), 'index'), [Var(a)]),
                                Call(Prop(TupleLit([Var(a), Var(b)]), 'has'), [Var(a)])]))
            tags.add('has')
        elif c < 0.8:
            # map keys: numbers by value (0 and -0 the same key); NaN keys are left to the self-differential
            m = 'm%d' % i
            stmts.append(Let(m, MapLit([])))
            keys = [Num(r.choice([0.0, -0.0, 1.0, 0.5, 2.0, 1e21, float('inf')])) for _ in range(3)]
            for j, k in enumerate(keys):
                stmts.append(ExprS(Assign(Index(Var(m), k), Num(j))))
            probe = Num(r.choice([0.0, -0.0, 1.0, 0.5, float('inf'), 3.0]))
            stmts.append(Print([Str('map'), Call(Prop(Var(m), 'len'), []), Call(Prop(Var(m), 'has'), [probe]),
                                Call(Prop(Var(m), 'get'), [probe])]))
            tags.add('mapkeys')
        else:
            stmts.append(Print([Str('truth'), Tern(Var(a), Str('t'), Str('f')), Un('!', Var(a)), And(Var(a), Var(b)),
                                Or(Nil(), Var(a)), Bin('==', Var(a), Nil()), Bin('==', Var(a), Bool(False)),
                                Bin('==', Nil(), Bool(False)), Bin('==', Str('1'), Num(1))]))
            tags.add('truthiness')
    if r.random() < 0.5:
        # a large map keyed by numbers: 0 and -0 are one key whatever the table size
        n = r.choice([120, 200, 400])
        stmts.append(Let('big', MapLit([])))
        stmts.append(For('bi', Call(Prop(Num(n), 'times'), []),
                         [ExprS(Assign(Index(Var('big'), Bin('-', Var('bi'), Num(n // 2))), Var('bi')))]))
        negz = r.choice([Bin('*', Num(0.0), Num(-1.0)), Un('-', Num(0.0)), Call(Prop(Group(Num(-0.3)), 'round'), []),
                         Bin('-', Num(0.0), Num(0.0))])
        stmts.append(Let('nz', negz))
        stmts.append(Print([Str('bigmap'), Call(Prop(Var('big'), 'len'), []), Call(Prop(Var('big'), 'has'), [Var('nz')]),
                            Call(Prop(Var('big'), 'get'), [Var('nz')]), Call(Prop(Var('big'), 'has'), [Num(-1.0)]),
                            Call(Prop(Var('big'), 'get'), [Num(float(n // 2 - 1))]),
                            Call(Prop(Var('big'), 'has'), [Num(0.5)])]))
        stmts.append(ExprS(Assign(Index(Var('big'), Var('nz')), Str('again'))))
        stmts.append(Print([Str('bigmap2'), Call(Prop(Var('big'), 'len'), []), Index(Var('big'), Num(0.0))]))
        tags.add('bigmap')
    return {'stmts': stmts, 'tags': tags}


def source(rng):
    import lyast
    return lyast.to_source(case(rng)['stmts'])
