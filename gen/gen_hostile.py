"""C16 workload (2)-(4): hostile but accepted programs, grouped in labelled
families. Every program must end in a normal exit, an exit code, a reported
deadlock or a language-level error with a traceback."""
import random


def families(rng):
    """returns list of (label, text)"""
    out = []

    def add(label, text):
        out.append((label, text))
    # ---- non callables, wrong receivers, raise of non errors ----------------
    for v in ['nil', 'true', '1', '"s"', '[1]', '(1,)', '{"a": 1}', 'chan(1)', '[1].iter()', 'Error("x")']:
        add('call-noncallable ' + v, 'let v = %s;\ntry { v(); } catch e: Error { print("c"); }\ntry { v(1, 2); } catch e: Error { print("c"); }\nv();\n' % v)
        add('raise-nonerror ' + v, 'try { raise %s; } catch e: Error { print("c"); }\nraise %s;\n' % (v, v))
        add('prop-on ' + v, 'let v = %s;\ntry { print(v.nothing); } catch e: Error { print("c"); }\ntry { v.nothing = 1; } catch e: Error { print("c"); }\ntry { v.nothing(); } catch e: Error { print("c"); }\n' % v)
        add('index-on ' + v, 'let v = %s;\ntry { v[0]; } catch e: Error { print("c"); }\ntry { v[0] = 1; } catch e: Error { print("c"); }\n' % v)
        add('iterate ' + v, 'try { for x in %s { print("i"); } } catch e: Error { print("c"); }\n' % v)
        add('send-to ' + v, 'let v = %s;\ntry { v <- 1; } catch e: Error { print("c"); }\ntry { print(<- v); } catch e: Error { print("c"); }\n' % v)
        add('launch ' + v, 'let v = %s;\ntry { launch v(); } catch e: Error { print("c"); }\nprint("end");\n' % v)
        add('inherit-from ' + v, 'let v = %s;\ntry { class A : v {} } catch e: Error { print("c"); }\nprint("end");\n' % v)
        add('catch-class ' + v, 'let v = %s;\ntry { try { raise Error("x"); } catch e: v { print("no"); } } catch e2: Error { print("c"); }\n' % v)
        add('interp ' + v, 'let v = %s;\ntry { print("a${v}b".len() > 0); } catch e: Error { print("c"); }\n' % v)
    # ---- the same wrong-kind values reaching the instruction through a captured (boxed) local, and a wider zoo ------
    zoo2 = ['nil', 'true', '1', '"s"', '[1]', '(1,)', '{"a": 1}', 'chan(1)', '[1].iter()', 'Error("x")', 'print', '|| 1',
            'zf', 'ZI()', '[1].push', 'ZI().m', 'ZI.sm', 'zf.call']
    zpre = 'class ZI { m() { 1 } static sm() { 2 } describe() { "zi" } }\nfn zf() { return ZI(); }\n'
    for v in zoo2:
        add('inherit-boxed-super ' + v, zpre + 'fn ext(base) {\n  class D : base { describe() { return "d " + super.describe(); } }\n  return D;\n}\n'
            'try { let k = ext(%s); print("made"); try { print(k().describe()); } catch e: Error { print("c2"); } } catch e: Error { print("c"); }\nprint("end");\n' % v)
        add('inherit-module-super ' + v, zpre + 'let v = %s;\ntry { class D : v { describe() { return super.describe(); } m2() { return || super.describe(); } }\n print("made"); } catch e: Error { print("c"); }\nprint("end");\n' % v)
        add('inherit-local-plain ' + v, zpre + 'fn t() { let v = %s; try { class D : v {} print("made"); } catch e: Error { print("c"); } }\nt();\nprint("end");\n' % v)
        add('boxed-ops ' + v, zpre + 'fn t() {\n  let v = %s;\n  let keep = || v;\n'
            '  try { v(); print("called"); } catch e: Error { print("c1"); }\n'
            '  try { raise v; } catch e: Error { print("c2"); }\n'
            '  try { print(v.nothing); } catch e: Error { print("c3"); }\n'
            '  try { v[0]; print("indexed"); } catch e: Error { print("c4"); }\n'
            '  try { for x in v { break; } print("iterated"); } catch e: Error { print("c5"); }\n'
            '  try { try { raise Error("x"); } catch e: v { print("no"); } } catch e2: Error { print("c6"); }\n'
            '  try { print(<- v); } catch e: Error { print("c7"); }\n'
            '  return keep;\n}\nt();\nprint("end");\n' % v)
    # ---- launch of callees that complete inline (natives, bound natives, classes with and without init) -----------
    for callee in ['l.len()', 'l.push(1)', 'print("p")', 'Plain()', 'WithInit(1)', 'str(1)' if False else '"s".len()',
                   'l.iter().each(|x| x)', 'Error("e")', 'chan(1)' if False else '[3, 1].sort(|a, b| a - b)', 'm.len()',
                   'Plain.name()', 'f.call(1)', 'f.name()']:
        add('launch-inline ' + callee, 'class Plain {}\nclass WithInit { init(a) { self.a = a; } }\nfn f(a) { return a; }\n'
            'let l = [1];\nlet m = {"k": 1};\nfn t() {\n  let x = 1;\n  for i in 300.times() { launch %s; }\n  let y = 2;\n  return x + y;\n}\n'
            'try { print(t()); } catch e: Error { print("c"); }\nprint("end");\n' % callee)
    # ---- channel operations that must wait, inside callbacks driven by natives (the native cannot be suspended) -----
    for cb_label, cb in [('each', 'l.iter().each(|x| { %s })'), ('map', 'l.iter().map(|x| { %s return x; }).list()'),
                         ('reduce', 'l.iter().reduce(0, |a, x| { %s return a; })'), ('sort', 'l.sort(|a, b| { %s return a - b; })'),
                         ('str', 'print(Blk())')]:
        for op_label, op in [('send-sync', 'ch <- 1;'), ('recv-empty', '<- ch;'), ('send-full', 'full <- 1;')]:
            body = cb % op if cb_label != 'str' else cb
            pre = ('class Blk { str() { %s return "b"; } }\n' % op) if cb_label == 'str' else ''
            add('blocking-in-callback %s %s' % (cb_label, op_label),
                pre + 'let ch = chan();\nlet full = chan(1);\nfull <- 0;\nlet l = [2, 1];\n'
                'try { %s; print("returned"); } catch e: Error { print("c"); }\nprint("end");\n' % body)
    # ---- reservations sized by a huge size hint --------------------------------------------------------------------
    for label, e in [('times-list', '1e18.times().list()'), ('collect', 'List.collect(1e18.times())'),
                     ('tuple-collect', 'Tuple.collect(1e18.times())'), ('take-list', '1e18.times().take(1e17).list()'),
                     ('map-list', '1e18.times().map(|x| x).list()'), ('zip-list', '1e18.times().zip(1e18.times()).list()'),
                     ('chain-list', '1e18.times().chain(1e18.times()).list()'),
                     ('small-control', '5.times().list()')]:
        add('huge-reserve ' + label, 'try { print(%s.len()); } catch e: Error { print("c"); }\nprint("end");\n' % e)
    # ---- str() of an operand misbehaving inside the assertion natives and other natives that stringify -----------
    for how, body in [('raises', 'raise Error("in str");'), ('exits', 'exit(5);'), ('nonstring', 'return 5;'),
                      ('recursive', 'return "${self}";'), ('asserts', 'assertEq(1, 2); return "s";')]:
        for user, call in [('assertEq', 'assertEq(S(), 1)'), ('assertEq-rhs', 'assertEq(1, S())'), ('assertNe', 'assertNe(S(), S())' if False else 'let s = S(); assertNe(s, s)'),
                           ('assert', 'assert(S())'), ('list-str', '[S()].str()'), ('map-str', '{"k": S()}.str()'),
                           ('tuple-str', '(S(),).str()'), ('join', '[S()].iter().join(",")' if False else '[S(), S()].str()')]:
            add('assert-str %s %s' % (user, how), 'class S { str() { %s } }\ntry { %s; print("returned"); } catch e: Error { print("c"); }\nprint("end");\n' % (body, call))
    # ---- built-in subclassing (D9) and constructing builtins -----------------
    for b in ['List', 'String', 'Map', 'Tuple', 'Number', 'Bool', 'Nil', 'Iter', 'Fun', 'Closure', 'Method', 'Native',
              'Class', 'Channel', 'Module', 'Object', 'Error']:
        add('subclass-builtin ' + b, 'class A : %s {}\nlet a = A();\ntry { print(a.len()); } catch e: Error { print("c"); }\ntry { a.push(1); } catch e: Error { print("c"); }\ntry { print(a.str().len() > 0); } catch e: Error { print("c"); }\nprint("end");\n' % b)
        add('construct-builtin ' + b, 'try { let a = %s(); print("made"); try { a.len(); } catch e: Error { print("c"); } try { a.next(); } catch e: Error { print("c"); } try { a.str(); } catch e: Error { print("c"); } } catch e: Error { print("c"); }\nprint("end");\n' % b)
    # ---- error classes ---------------------------------------------------------
    add('error-subclass-own-init', 'class MyErr : Error { init(a) { self.a = a; } }\ntry { raise MyErr(1); } catch e: MyErr { print("c", e.a); }\nraise MyErr(2);\n')
    add('error-subclass-super-init', 'class MyErr : Error { init(a) { super.init("m"); self.a = a; } }\ntry { raise MyErr(1); } catch e: MyErr { print("c", e.a, e.message); }\nraise MyErr(2);\n')
    add('error-message-kinds', 'for m in [nil, 1, [1], true] { try { raise Error(m); } catch e: Error { print("c"); } }\nprint("end");\n')
    add('error-uncaught-nonstring-message', 'class E2 : Error { init() { super.init("x"); self.message = 5; } }\nraise E2();\n')
    add('error-in-catch', 'try { try { raise Error("a"); } catch e: Error { let x = nil - 1; } } catch e2: Error { print("outer"); }\ntry { raise Error("b"); } catch e: Error { raise Error("c"); }\n')
    add('error-in-str-print', 'class P { str() { raise Error("in str"); } }\ntry { print(P()); } catch e: Error { print("c"); }\ntry { print("${P()}"); } catch e: Error { print("c"); }\ntry { print([P()]); } catch e: Error { print("c"); }\ntry { print({1: P()}); } catch e: Error { print("c"); }\nprint((P(),).len());\n')
    add('str-returns-nonstring', 'class P { str() { return 5; } }\ntry { print(P()); } catch e: Error { print("c"); }\ntry { print("${P()}"); } catch e: Error { print("c"); }\ntry { print([P()].str()); } catch e: Error { print("c"); }\ntry { print([P()]); } catch e: Error { print("c"); }\ntry { print({1: P()}); } catch e: Error { print("c"); }\nprint("end");\n')
    add('backtrace-mutation', 'try { raise Error("a"); } catch e: Error { e.backTrace = nil; e.message = nil; e.inner = e; print("c"); }\nprint("end");\n')
    add('raise-inner-cycle', 'let e = Error("a");\ne.inner = e;\nraise e;\n')
    # ---- recursion to the frame limit --------------------------------------------
    rec = {
        'closure': 'fn f(n) { return f(n + 1); }\n',
        'lambda': 'let f = nil;\nf = |n| f(n + 1);\n',
        'method': 'class R { go(n) { return self.go(n + 1); } }\nlet f = R().go;\n',
        'init': 'class R { init(n) { R(n + 1); } }\nlet f = |n| R(n);\n',
        'map-callback': 'fn f(n) { return [n].iter().map(|x| f(x + 1)).list(); }\n',
        'each-callback': 'fn f(n) { [n].iter().each(|x| f(x + 1)); return n; }\n',
        'reduce-callback': 'fn f(n) { return [n].iter().reduce(0, |a, x| f(x + 1)); }\n',
        'sort-callback': 'fn f(n) { return [n, n].sort(|a, b| f(a + 1)); }\n',
        'call-native': 'fn f(n) { return f.call(n + 1); }\n',
        'mutual': 'fn g(n) { return f(n + 1); }\nfn f(n) { return g(n + 1); }\n',
        'str-method': 'class S { str() { return "${S()}"; } }\nlet f = |n| S().str();\n',
        'interp-str': 'class S { str() { return [S()].str(); } }\nlet f = |n| "${S()}";\n',
        'iter-protocol': 'class I { iter() { return I().iter(); } }\nlet f = |n| { for x in I() { } return n; };\n',
        'filter-all-any': 'fn f(n) { return [n].iter().filter(|x| [x].iter().all(|y| [y].iter().any(|z| f(z + 1)))).list(); }\n',
        'list-collect': 'fn f(n) { return List.collect([n].iter().map(|x| f(x + 1))); }\n',
        'into': 'fn f(n) { return [n].iter().into(|it| f(n + 1)); }\n',
        'static': 'class T { static go(n) { return T.go(n + 1); } }\nlet f = T.go;\n',
        'super': 'class A { go(n) { return self.go(n + 1); } }\nclass B : A { go(n) { return super.go(n + 1); } }\nlet f = B().go;\n',
    }
    for name, pre in rec.items():
        add('recursion-wrapped ' + name, pre + 'fn w1(n) { return f(n); }\nfn w2(n) { return w1(n); }\n'
            'try { w1(0); print("returned"); } catch e: Error { print("caught overflow"); }\n'
            'try { w2(0); print("returned"); } catch e: Error { print("caught overflow"); }\nprint("end");\n')
        add('recursion ' + name, pre + 'try { f(0); print("returned"); } catch e: Error { print("caught overflow"); }\nprint("between");\nf(0);\nprint("unreachable?");\n')
        add('recursion-in-fiber ' + name, pre + 'let done = chan(1);\nfn w() { try { f(0); } catch e: Error { print("caught in fiber"); } done <- 1; }\nlaunch w();\n<- done;\nprint("end");\n')
        add('recursion-then-work ' + name, pre + 'for i in 3.times() { try { f(0); } catch e: Error { print("c", i); } }\nlet l = [];\nfor i in 50.times() { l.push([i, "s${i}"]); }\nprint(l.len());\n')
    # ---- cyclic structures through str() (D12) -------------------------------------
    add('cyclic-str list', 'let a = [];\na.push(a);\ntry { print(a.len()); print(a); } catch e: Error { print("c"); }\n')
    add('cyclic-str map', 'let m = {};\nm["self"] = m;\ntry { print(m); } catch e: Error { print("c"); }\n')
    add('cyclic-str tuple-list', 'let a = [];\nlet t = (a,);\na.push(t);\ntry { print(t.str().len()); } catch e: Error { print("c"); }\n')
    add('cyclic-eq', 'let a = [];\na.push(a);\nlet b = [];\nb.push(b);\nprint(a == b, a == a, a.has(a), a.index(a));\n')
    add('cyclic-instance', 'class N { init() { self.next = nil; } }\nlet n = N();\nn.next = n;\nprint(n.next.next.next == n);\n')
    # ---- limits ---------------------------------------------------------------------
    add('fields-256', 'class C { init() {\n' + ''.join('self.f%d = %d;\n' % (i, i) for i in range(256)) + '} }\nlet c = C();\nprint(c.f255);\n')
    add('fields-257', 'class C { init() {\n' + ''.join('self.f%d = %d;\n' % (i, i) for i in range(257)) + '} }\nlet c = C();\nprint(c.f256);\n')
    add('fields-inherited-300', 'class A { init() {\n' + ''.join('self.a%d = 1;\n' % i for i in range(150)) + '} }\nclass B : A { init() { super.init();\n' + ''.join('self.b%d = 1;\n' % i for i in range(150)) + '} }\nlet b = B();\nprint(b.b149);\n')
    add('sort-inconsistent', 'let l = [];\nfor i in 100.times() { l.push(i); }\nlet k = 0;\ntry { print(l.sort(|a, b| { k = k + 1; return k - (k / 3).floor() * 3 - 1; }).len()); } catch e: Error { print("c"); }\n')
    add('sort-nan', 'try { print([3, 1, 2].sort(|a, b| 0 / 0)); } catch e: Error { print("c"); }\n')
    add('sort-mutates', 'let l = [3, 1, 2];\ntry { print(l.sort(|a, b| { l.push(a); return a - b; })); } catch e: Error { print("c"); }\nprint(l.len());\n')
    add('mutate-during-iteration', 'let l = [1, 2, 3];\nlet n = 0;\nfor x in l { n = n + 1; if n < 20 { l.push(x); } if n == 5 { l.clear(); } }\nprint(n);\nlet m = {"a": 1};\ntry { for kv in m { m["b${kv[0]}"] = 1; m.remove("a"); } } catch e: Error { print("c"); }\nprint("end");\n')
    add('huge-times', 'let n = 0;\nfor i in 1e18.times() { n = n + 1; if n > 5 { break; } }\nprint(n);\ntry { print((1/0).times().len()); } catch e: Error { print("c"); }\ntry { print((0/0).times().list()); } catch e: Error { print("c"); }\n')
    add('huge-until', 'try { print(0.until(1e6, 1e3).list().len()); } catch e: Error { print("c"); }\n')
    add('huge-slice', 'print([1, 2, 3].slice(-1e18, 1e18));\nprint("abc".slice(-1e18, 1e18));\nprint((1, 2).slice(1e18));\n')
    add('string-repeat-growth', 'let s = "ab";\nfor i in 20.times() { s = s + s; }\nprint(s.len());\n')
    add('deep-list-nesting-str', 'let a = [];\nfor i in 3000.times() { a = [a]; }\ntry { print(a.str().len()); } catch e: Error { print("c"); }\n')
    add('chan-capacity-kinds', 'for c in [0, -1, 1.5, 0/0, 1/0, 1e18, nil, "1"] { try { let ch = chan(c); print("made"); } catch e: Error { print("c"); } }\n')
    add('use-before-define', 'fn f() { return later; }\ntry { print(f()); } catch e: Error { print("c"); }\nlet later = 1;\nprint(f());\n')
    add('box-undefined', 'fn outer() {\n  let g = || inner;\n  let r = nil;\n  try { r = g(); } catch e: Error { r = "c"; }\n  let inner = 5;\n  return r;\n}\n' if False else 'fn outer() { let a = 1; let g = || a; a = nil; return g(); }\nprint(outer());\n')
    add('self-outside', 'class A { m() { return || self; } }\nlet f = A().m();\nprint(f() == f());\n')
    add('method-rebind', 'class A { init() { self.v = 1; } m() { self.v } }\nclass B { init() { self.w = 2; } }\nlet m = A().m;\nprint(m());\nlet b = B();\ntry { b.m = m; } catch e: Error { print("c"); }\nprint(m.call());\n')
    add('close-twice-send-recv', 'let c = chan(1);\nc <- 1;\nc.close();\ntry { c.close(); } catch e: Error { print("c1"); }\ntry { c <- 2; } catch e: Error { print("c2"); }\nprint(<- c, <- c, <- c);\n')
    add('deadlock-main', 'let c = chan();\nprint("before");\n<- c;\nprint("never");\n')
    add('deadlock-in-try', 'let c = chan();\ntry { c <- 1; } catch e: Error { print("c"); }\nprint("never");\n')
    add('fiber-error-uncaught', 'fn w() { raise Error("in fiber"); }\nlet c = chan(1);\nlaunch w();\nfn k(c) { c <- 1; }\nlaunch k(c);\n<- c;\nprint("main continues?");\n')
    add('fiber-runtime-error', 'fn w(c) { c <- nil - 1; }\nlet c = chan(1);\nlaunch w(c);\nprint(<- c);\n')
    add('exit-kinds', 'for v in [nil, "1", 1.5, -1, 65536, 1e18, 0/0] { try { exit(v); } catch e: Error { print("c"); } }\nprint("end");\n')
    add('exit-in-fiber', 'fn w() { exit(9); }\nlet c = chan();\nlaunch w();\n<- c;\n')
    add('assert-kinds', 'for v in [nil, 1, "s", [true]] { try { assert(v); } catch e: Error { print("c"); } }\ntry { assertEq([1], [1]); } catch e: Error { print("c"); }\ntry { assertNe(nil, nil); } catch e: Error { print("c"); }\nprint("end");\n')
    add('print-variants', 'print();\nprint(nil, true, 1, "s", [1, [2]], (1,), {"a": [1]}, print, List, [1].iter(), chan(1), Error("e"));\nclass A {}\nprint(A, A(), A().cls(), [A()], {A(): 1});\nfn f() {}\nprint(f, || 1, [1].push, f());\n')
    return out
