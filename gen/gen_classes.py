"""C03 / C13 generator: class hierarchies, fields, dispatch, super, statics,
bound methods, field-shadows-method, and call sites that see sequences of
receiver classes."""
import random
from lyast import *

FIELDS = ['a', 'b', 'c', 'd', 'n']
METHODS = ['m0', 'm1', 'm2', 'm3']
ERR_CATCH = ['PropertyError', 'RuntimeError', 'TypeError', 'Error']


def guarded_print(args, tag):
    """print(...) that reports the error class when evaluating the arguments raises"""
    catches = [('e', cls, [Print([Str('E ' + tag), Str(cls)])]) for cls in ERR_CATCH]
    return Try([Print([Str(tag)] + args)], catches)


class ClassGen:
    def __init__(self, rng):
        self.rng = rng
        self.tags = set()
        self.u = 0
        self.classes = []     # dict(name, parent, fields(all, in order), methods(all visible), own_init, init_params)

    def tag(self):
        self.u += 1
        return 't%d' % self.u

    def make_class(self, idx):
        r = self.rng
        name = 'K%d' % idx
        parent = None
        if self.classes and r.random() < 0.7:
            parent = r.choice(self.classes)
        info = {'name': name, 'parent': parent, 'fields': list(parent['fields']) if parent else [],
                'methods': dict(parent['methods']) if parent else {}, 'statics': [],
                'init_params': parent['init_params'] if parent else 0, 'has_init': parent['has_init'] if parent else False,
                'callable_fields': list(parent['callable_fields']) if parent else []}
        init = None
        if r.random() < 0.75:
            nparams = r.randint(0, 2)
            params = ['p%d' % i for i in range(nparams)]
            body = []
            own = r.sample(FIELDS, r.randint(0, 4))
            r.shuffle(own)
            call_super = parent is not None and parent['has_init'] and r.random() < 0.7
            stmts_super = []
            if call_super:
                stmts_super = [ExprS(Call(Super('init'), [Str(self.tag()) for _ in range(parent['init_params'])]))]
                self.tags.add('super.init')
            elif parent is not None and parent['has_init']:
                self.tags.add('init_without_super')
            assigns = []
            for f in own:
                if f == 'n':
                    val = Num(r.randint(1, 9))
                elif params and r.random() < 0.4:
                    val = Var(r.choice(params))
                else:
                    val = Str('%s.%s#%s' % (name, f, self.tag()))
                target = Prop(Self(), f) if r.random() < 0.6 else At(f)
                assigns.append(ExprS(Assign(target, val)))
                if f not in info['fields']:
                    info['fields'].append(f)
            # a field that holds a callable and shadows a method of the same name
            if r.random() < 0.25:
                m = r.choice(METHODS)
                assigns.append(ExprS(Assign(Prop(Self(), m), Lambda([], Str('%s.field-%s' % (name, m)), True))))
                if m not in info['fields']:
                    info['fields'].append(m)
                if m not in info['callable_fields']:
                    info['callable_fields'].append(m)
                self.tags.add('field_shadows_method')
            # a field that will hold another instance: self.link.<field> chains
            if r.random() < 0.5:
                assigns.append(ExprS(Assign(Prop(Self(), 'link') if r.random() < 0.5 else At('link'), Nil())))
                if 'link' not in info['fields']:
                    info['fields'].append('link')
            # closures and nested functions that capture self inside the initializer (self then lives in a box)
            if r.random() < 0.35:
                plain0 = [x for x in info['fields'] if x in FIELDS]
                kind = r.choice(['field_closure', 'unused_closure', 'nested_fn', 'closure_then_return'])
                self.tags.add('init_captures_self:' + kind)
                if kind == 'field_closure' or not plain0:
                    body_e = (Bin('+', Str(name + '.selfcb:'), Interp([Prop(Self(), r.choice(plain0))])) if plain0
                              else Str(name + '.selfcb'))
                    assigns.append(ExprS(Assign(Prop(Self(), 'selfcb'), Lambda([], body_e, True))))
                    if 'selfcb' not in info['fields']:
                        info['fields'].append('selfcb')
                    info['selfcb'] = True
                elif kind == 'unused_closure':
                    assigns.insert(r.randint(0, len(assigns)), Let('keep', Lambda([], Self(), True)))
                elif kind == 'nested_fn':
                    f0 = r.choice(plain0)
                    assigns.append(Fn('helper', [], [Return(Interp(['h:', Prop(Self(), f0)]))]))
                    assigns.append(ExprS(Assign(Prop(Self(), f0), Call(Var('helper'), []))))
                else:
                    assigns.append(Let('keep', Lambda([], At(r.choice(plain0)), True)))
                    assigns.append(Return(None))
            if r.random() < 0.3 and assigns and assigns[0].k == 'expr':
                # assignment nested in a block still declares the field
                assigns = [If(Bool(True), assigns[:1])] + assigns[1:]
                self.tags.add('field_in_block')
            pos = r.randint(0, len(assigns))
            body = assigns[:pos] + stmts_super + assigns[pos:]
            init = Fn('init', params, body)
            info['init_params'] = nparams
            info['has_init'] = True
        methods = []
        for m in r.sample(METHODS, r.randint(0, 4)):
            parts = [Str('%s.%s' % (name, m))]
            plain = [x for x in info['fields'] if x in FIELDS]
            if plain and r.random() < 0.6:
                f = r.choice(plain)
                acc = Prop(Self(), f) if r.random() < 0.5 else At(f)
                parts.append(Call(Prop(Interp([acc]), 'str'), []) if False else Interp(['/', acc]))
            if parent is not None and m in parent['methods'] and m not in parent['callable_fields'] and r.random() < 0.6:
                parts.append(Bin('+', Str('>'), Call(Super(m), [])))
                self.tags.add('super.method')
            other = [x for x in METHODS if x != m and x in info['methods'] and x not in info['callable_fields']]
            if other and r.random() < 0.25 and self.acyclic(info, m, other[0]):
                parts.append(Bin('+', Str('~'), Call(Prop(Self(), other[0]), [])))
                info.setdefault('calls', {}).setdefault(m, set()).add(other[0])
                self.tags.add('self.dispatch')
            e = parts[0]
            for p in parts[1:]:
                e = Bin('+', e, p)
            body = [Return(e)] if r.random() < 0.5 else [Implicit(e)]
            if r.random() < 0.2:
                # the whole result computed by a lambda / nested function that captures self
                self.tags.add('method_captures_self')
                if r.random() < 0.5:
                    body = [Let('g', Lambda([], e, True)), Return(Call(Var('g'), []))]
                else:
                    body = [Fn('inner', [], [Return(e)]), Return(Call(Var('inner'), []))]
            methods.append(Fn(m, [], body))
            info['methods'][m] = name
        if 'link' in info['fields']:
            # chained access through a field of self: the second trailer must be looked up by name
            f = r.choice(FIELDS)
            first = Prop(Self(), 'link') if r.random() < 0.6 else At('link')
            methods.append(Fn('peek', [], [If(Bin('==', first, Nil()), [Return(Str('nolink'))]),
                                           Return(Interp(['peek:', Prop(first, f)]))]))
            methods.append(Fn('poke', ['v'], [ExprS(Assign(Prop(Prop(Self(), 'link'), f), Var('v'))),
                                              Return(Prop(Prop(Self(), 'link'), f))]))
            info['methods']['peek'] = name
            info['methods']['poke'] = name
            info['peek_field'] = f
            self.tags.add('self.link.field')
        if r.random() < 0.4:
            # reads and writes of a field of ANOTHER object from inside a method: plain, compound and through a
            # local alias; the enclosing class often declares the same name at a different slot
            f = r.choice(FIELDS)
            val = Num(r.randint(1, 5)) if f == 'n' else Str('+' + self.tag())
            form = r.choice(['compound', 'compound', 'plain', 'alias_compound'])
            if form == 'compound':
                upd = [ExprS(OpAssign(Prop(Var('o'), f), '+', val))]
            elif form == 'plain':
                upd = [ExprS(Assign(Prop(Var('o'), f), val))]
            else:
                upd = [Let('t', Var('o')), ExprS(OpAssign(Prop(Var('t'), f), '+', val))]
            methods.append(Fn('bumpOther', ['o'], upd + [Return(Prop(Var('o'), f))]))
            info['methods']['bumpOther'] = name
            info['bump_field'] = f
            self.tags.add('foreign_field_update:' + form)
        if parent is not None and r.random() < 0.3:
            ms = [m for m in METHODS if m in parent['methods'] and m not in parent['callable_fields']]
            if ms:
                m = r.choice(ms)
                # super.m taken as a value (not fused into a super invoke), then called
                methods.append(Fn('viaSuper', [], [Let('s', Super(m)), Return(Bin('+', Str('via:'), Call(Var('s'), [])))]))
                info['methods']['viaSuper'] = name
                self.tags.add('super.value')
        statics = []
        if r.random() < 0.4:
            statics.append(Fn('make', ['x'], [Return(Bin('+', Str(name + '.make:'), Interp([Var('x')])))]))
            info['statics'].append('make')
            self.tags.add('static')
        if 'n' in info['fields'] and r.random() < 0.5:
            methods.append(Fn('inc', ['by'], [ExprS(OpAssign(Prop(Self(), 'n'), '+', Var('by'))), Return(At('n'))]))
            info['methods']['inc'] = name
        self.classes.append(info)
        return Class(name, parent['name'] if parent else None, init, methods, statics)

    def acyclic(self, info, m, other):
        # a self-call graph with cycles would recurse forever: keep it a DAG by only calling "higher" methods
        return METHODS.index(other) > METHODS.index(m)

    def new_instance(self, info):
        return Call(Var(info['name']), [Str(self.tag()) for _ in range(info['init_params'])])


def case(rng):
    g = ClassGen(rng)
    r = rng
    stmts = []
    ncls = r.randint(1, 6)
    dynamic = r.random() < 0.2
    for i in range(ncls):
        stmts.append(g.make_class(i))
    # call sites shared by all receivers
    sites = []
    for m in METHODS:
        sites.append(('inv_' + m, Fn('inv_' + m, ['o'], [Return(Call(Prop(Var('o'), m), []))])))
        sites.append(('get_' + m, Fn('get_' + m, ['o'], [Let('f', Prop(Var('o'), m)), Return(Call(Var('f'), []))])))
    for f in FIELDS:
        sites.append(('rd_' + f, Fn('rd_' + f, ['o'], [Return(Prop(Var('o'), f))])))
        sites.append(('wr_' + f, Fn('wr_' + f, ['o', 'v'], [ExprS(Assign(Prop(Var('o'), f), Var('v'))),
                                                            Return(Prop(Var('o'), f))])))
    sites.append(('inc', Fn('inc', ['o'], [Return(Call(Prop(Var('o'), 'inc'), [Num(2)]))])))
    used_sites = r.sample(sites, r.randint(3, 8))
    for _, fn in used_sites:
        stmts.append(fn)
    # instances
    objs = []
    for i in range(r.randint(2, 6)):
        info = r.choice(g.classes)
        name = 'o%d' % i
        stmts.append(Let(name, g.new_instance(info)))
        objs.append((name, info))
    # receiver sequences at each site
    k = 0
    for sname, fn in used_sites:
        pattern = r.choice(['mono', 'alt', 'random'])
        seq = []
        if pattern == 'mono':
            seq = [r.choice(objs)] * r.randint(2, 4)
        elif pattern == 'alt':
            a, b = r.choice(objs), r.choice(objs)
            seq = [a, b] * r.randint(1, 3)
        else:
            seq = [r.choice(objs) for _ in range(r.randint(2, 6))]
        g.tags.add('site:' + pattern)
        for oname, info in seq:
            k += 1
            if sname.startswith('wr_'):
                args = [Var(oname), Str(g.tag())] if sname != 'wr_n' else [Var(oname), Num(r.randint(10, 20))]
            else:
                args = [Var(oname)]
            stmts.append(guarded_print([Call(Var(sname), args)], '%d %s %s' % (k, sname, oname)))
    # link instances together and read / write through self.link.<field>
    linked = [(o, i) for o, i in objs if 'link' in i['fields']]
    for oname, info in linked[:4]:
        other, oinfo = r.choice(objs)
        stmts.append(ExprS(Assign(Prop(Var(oname), 'link'), Var(other))))
        if 'peek' in info['methods']:
            stmts.append(guarded_print([Call(Prop(Var(oname), 'peek'), [])], 'peek %s->%s' % (oname, other)))
            stmts.append(guarded_print([Call(Prop(Var(oname), 'poke'), [Str(g.tag())])], 'poke %s->%s' % (oname, other)))
            stmts.append(guarded_print([Call(Prop(Var(oname), 'peek'), [])], 'peek2 %s->%s' % (oname, other)))
    for oname, info in objs:
        if 'bumpOther' in info['methods']:
            for _ in range(r.randint(1, 3)):
                other, oinfo = r.choice(objs)
                stmts.append(guarded_print([Call(Prop(Var(oname), 'bumpOther'), [Var(other)])],
                                           'bumpOther %s->%s' % (oname, other)))
                # the whole layout of the target afterwards
                for f2 in FIELDS:
                    stmts.append(guarded_print([Prop(Var(other), f2)], 'after bump %s.%s' % (other, f2)))
    for oname, info in objs:
        if info.get('selfcb'):
            stmts.append(guarded_print([Call(Prop(Var(oname), 'selfcb'), [])], 'selfcb ' + oname))
    for oname, info in objs:
        if 'viaSuper' in info['methods'] and r.random() < 0.7:
            stmts.append(guarded_print([Call(Prop(Var(oname), 'viaSuper'), [])], 'viaSuper ' + oname))
    # direct forms: bound method passed around, statics, undeclared access
    for oname, info in r.sample(objs, min(len(objs), 3)):
        ms = [m for m in info['methods'] if m in METHODS]
        if ms:
            m = r.choice(ms)
            stmts.append(Let('bm_' + oname, Prop(Var(oname), m)))
            stmts.append(guarded_print([Call(Var('bm_' + oname), [])], 'bound ' + oname + '.' + m))
            stmts.append(guarded_print([Call(Prop(Call(Prop(ListLit([Num(1), Num(2)]), 'iter'), []), 'map'),
                                             [Lambda(['x'], Call(Var('bm_' + oname), []), True)])], 'viamap ' + oname)
                         if False else guarded_print([Call(Var('bm_' + oname), [])], 'bound2 ' + oname))
            g.tags.add('bound_method')
        if info['statics']:
            stmts.append(guarded_print([Call(Prop(Var(info['name']), 'make'), [Num(r.randint(1, 9))])],
                                       'static ' + info['name']))
        if r.random() < 0.5:
            stmts.append(guarded_print([Prop(Var(oname), 'zz')], 'undeclared get ' + oname))
            stmts.append(guarded_print([Call(Prop(Var(oname), 'zz'), [])], 'undeclared call ' + oname))
            stmts.append(guarded_print([Assign(Prop(Var(oname), 'zz'), Num(1))], 'undeclared set ' + oname))
            g.tags.add('undeclared')
    # wrong arity construction
    if r.random() < 0.3:
        info = r.choice(g.classes)
        stmts.append(guarded_print([Call(Var(info['name']), [Str('x')] * (info['init_params'] + 1))], 'arity'))
    if dynamic:
        import gen_core
        stmts = gen_core.wrap_position(stmts, 'fn')
        g.tags.add('classes_in_function')
    return {'stmts': stmts, 'tags': g.tags, 'nontrivial': len(g.classes) >= 2}


def source(rng):
    import lyast
    return lyast.to_source(case(rng)['stmts'])
