"""lynative: reference model of Laythe's built-in classes (Number, String, Bool,
Nil, List, Tuple, Map, Iter, Fun/Closure/Method/Native, Class, Object).

Every native follows the Rust source in /repo/laythe_lib/src/global/primitives
literally (same checks in the same order, same float -> usize casts, same
callback order).  Behaviour that depends on hash order, addresses or on memory
corruption in the real implementation raises Refuse.

Exports: lookup(it, obj, name), iter_of(it, v), install_globals(it), and the
optional pre-pass annotate_lambda_names(stmts) (without it `name()` of a lambda
is refused).
"""
import math
import re

from lyref import (Cell, Frame, LyClass, LyClosure, LyError, LyInstance, LyIter, LyList, LyMap, LyMethod,
                   LyModule, LyNative, LyTuple, Refuse, is_falsey, key_of, ly_eq)

USIZE_MAX = 2 ** 64 - 1
INF = float('inf')

# names of the builtin class objects install_globals registers
BUILTIN_CLASS_NAMES = ('Bool', 'Closure', 'Fun', 'Iter', 'List', 'Map', 'Method', 'Native', 'Nil', 'Number',
                       'String', 'Tuple', 'Class', 'Module', 'Channel')

# a list()/List.collect() result is allocated with exactly size_hint slots; the
# real list doubles its capacity on growth and 0 * 2 == 0, so pushing onto a
# list collected from a sized empty iterator writes out of bounds
COLLECT_LIMIT = 1_000_000
SORT_LIMIT = 100


class ZeroCapList(LyList):
    """A list the real VM allocated with capacity 0 (growing it corrupts memory)."""
    __slots__ = ()


# ---------------------------------------------------------------------------
# Rust numeric helpers


def has_fract(x):
    """f64::fract() != 0.0  (NaN and +-inf have a NaN fract, and NaN != 0.0)"""
    if x != x or x == INF or x == -INF:
        return True
    return x != math.trunc(x)


def as_usize(x):
    """`x as usize`: saturating, NaN -> 0"""
    if x != x or x <= 0:
        return 0
    if x >= 18446744073709551615.0:
        return USIZE_MAX
    return int(x)


def usize_to_f64(n):
    return float(n)


# ---------------------------------------------------------------------------
# native construction


def kind_ok(kind, v):
    if kind == 'obj':
        return True
    if kind == 'num':
        return isinstance(v, float)
    if kind == 'str':
        return isinstance(v, str)
    if kind == 'bool':
        return isinstance(v, bool)
    if kind == 'call':
        return isinstance(v, (LyClosure, LyMethod, LyNative))
    raise AssertionError(kind)


def make_native(name, lo, hi, kinds, fn, stack=False):
    """kinds: one entry per declared parameter; for a variadic native (hi is
    None) the last entry applies to every extra argument."""
    kinds = list(kinds)

    def py(it, args):
        actual = args[1:]
        for i, a in enumerate(actual):
            if hi is None:
                k = kinds[i] if i < lo else kinds[lo]
            else:
                k = kinds[i]
            if not kind_ok(k, a):
                raise it.rt_error('RuntimeError', "%s's parameter %d has the wrong kind." % (name, i))
        if not stack:
            return fn(it, args)
        it.frames.append(Frame(name, 'native', 0, native=True))
        depth = len(it.frames)
        r = fn(it, args)
        del it.frames[depth - 1:]
        return r

    return LyNative(name, py, lo, hi, is_method=True, kinds=kinds)


class Table(dict):
    def add(self, name, lo, hi=-1, kinds=(), stack=False):
        if hi == -1:
            hi = lo

        def deco(fn):
            self[name] = make_native(name, lo, hi, kinds, fn, stack)
            return fn
        return deco


OBJECT = Table()
NUMBER = Table()
STRING = Table()
BOOL = Table()
NIL = Table()
LIST = Table()
TUPLE = Table()
MAP = Table()
ITER = Table()
FUN = Table()        # Fun and Closure carry the same three methods
METHOD = Table()
NATIVE = Table()
CLASS = Table()
STATIC = {'Number': Table(), 'List': Table(), 'Tuple': Table()}


def builtin_class(it, name):
    reg = getattr(it, 'builtin_classes', None)
    if reg is None or name not in reg:
        raise Refuse('builtin class object %s is not installed' % name)
    return reg[name]


# ---------------------------------------------------------------------------
# str()


def str_of(it, v, nested=False, path=()):
    """What `.str()` yields; `nested` is the form used inside a collection."""
    if isinstance(v, str):
        return ("'" + v + "'") if nested else v
    if isinstance(v, (LyList, LyTuple)):
        if id(v) in path:
            raise Refuse('str() of a cyclic structure (native recursion)')
        p = path + (id(v),)
        inner = ', '.join(str_of(it, x, True, p) for x in v.items)
        return ('[' + inner + ']') if isinstance(v, LyList) else ('(' + inner + ')')
    if isinstance(v, LyMap):
        if not v.d:
            return '{}'
        if len(v.d) > 1:
            raise Refuse('str() of a map with several entries (hash order)')
        if id(v) in path:
            raise Refuse('str() of a cyclic structure (native recursion)')
        p = path + (id(v),)
        (k, x), = v.d.values()
        return '{ ' + str_of(it, k, True, p) + ': ' + str_of(it, x, True, p) + ' }'
    if isinstance(v, LyIter):
        return iter_name(v)
    return it.to_str(v, nested)


# ---------------------------------------------------------------------------
# Object


def class_of(it, v):
    """The class object `v.cls()` yields, or Refuse when the model has none."""
    if v is None:
        return builtin_class(it, 'Nil')
    if isinstance(v, bool):
        return builtin_class(it, 'Bool')
    if isinstance(v, float):
        return builtin_class(it, 'Number')
    if isinstance(v, str):
        return builtin_class(it, 'String')
    if isinstance(v, LyList):
        return builtin_class(it, 'List')
    if isinstance(v, LyTuple):
        return builtin_class(it, 'Tuple')
    if isinstance(v, LyMap):
        return builtin_class(it, 'Map')
    if isinstance(v, LyIter):
        return builtin_class(it, 'Iter')
    if isinstance(v, LyInstance):
        return v.cls
    if isinstance(v, LyMethod):
        return builtin_class(it, 'Method')
    if isinstance(v, LyNative):
        return builtin_class(it, 'Native')
    if isinstance(v, LyClosure):
        raise Refuse('class of a function (Fun or Closure depending on captures)')
    if isinstance(v, LyClass):
        raise Refuse('class of a class (meta class objects are not modelled)')
    raise Refuse('class of this value')


@OBJECT.add('equals', 1, kinds=['obj'])
def _obj_equals(it, a):
    return ly_eq(a[0], a[1])


@OBJECT.add('cls', 0)
def _obj_cls(it, a):
    return class_of(it, a[0])


@OBJECT.add('str', 0)
def _obj_str(it, a):
    raise Refuse('Object.str prints an address')


@OBJECT.add('isA?', 1, kinds=['obj'])
def _obj_is_a(it, a):
    this, cls = a
    if not isinstance(cls, LyClass):
        raise Refuse('isA? with a non class argument (unchecked cast in the VM)')
    if isinstance(this, LyClass):
        # the receiver's class is its meta class: metaClass -> ... -> Class -> Object
        return cls is it.object_class or cls is builtin_class(it, 'Class')
    if isinstance(this, LyClosure):
        if cls is it.object_class:
            return True
        if cls is builtin_class(it, 'Fun') or cls is builtin_class(it, 'Closure'):
            raise Refuse('isA? Fun/Closure depends on captures')
        return False
    return class_of(it, this).is_subclass(cls)


# ---------------------------------------------------------------------------
# iterators


class NatIter(LyIter):
    """Mirror of the VM's Enumerator: an inner enumerator plus a copy of its
    current value taken after every next() (also after a failing one)."""
    __slots__ = ('enum', 'cached', 'it')

    def __init__(self, it, enum):
        self.it = it
        self.enum = enum
        self.cached = None
        self.gen = self

    # lyref.Interp.iter_next protocol -------------------------------------
    def __iter__(self):
        return self

    def __next__(self):
        if is_falsey(self.step()):
            raise StopIteration
        return self.cached

    cur = property(lambda self: self.cached, lambda self, v: None)
    done = property(lambda self: False, lambda self, v: None)
    size = property(lambda self: self.enum.size_hint(), lambda self, v: None)

    # Enumerator::next ------------------------------------------------------
    def step(self):
        self.it.tick()
        try:
            return self.enum.next(self.it)
        finally:
            self.cached = self.enum.current()


class UserIter(LyIter):
    """for-in over a value whose iter() did not give a builtin iterator: the VM
    invokes next() and, when that is truthy, current() on it."""
    __slots__ = ('it', 'obj')

    def __init__(self, it, obj):
        LyIter.__init__(self, self, None)
        self.it = it
        self.obj = obj

    def __iter__(self):
        return self

    def __next__(self):
        if is_falsey(self.it.call_method_by_name(self.obj, 'next', [])):
            raise StopIteration
        return self.it.call_method_by_name(self.obj, 'current', [])


def iter_name(v):
    if isinstance(v, NatIter):
        return v.enum.name
    raise Refuse('name of a foreign iterator')


def advance(it, src):
    """next() on an iterator object; returns the (truthy / falsey) result"""
    if isinstance(src, NatIter):
        return src.step()
    return it.iter_next(src)


def size_hint(src):
    return src.size


def need_iter(v, what):
    if not isinstance(v, LyIter):
        raise Refuse('%s given a non iterator (unchecked cast in the VM)' % what)
    if isinstance(v, UserIter):
        raise Refuse('internal for-in wrapper escaped')
    return v


class Enum:
    name = '?'

    def current(self):
        return self.cur

    def size_hint(self):
        return None


class ListEnum(Enum):
    """also used for tuples (same code in the VM)"""

    def __init__(self, seq, name):
        self.seq = seq
        self.name = name
        self.index = 0
        self.cur = None

    def next(self, it):
        items = self.seq.items
        if self.index < len(items):
            self.cur = items[self.index]
            self.index += 1
            return True
        self.cur = None
        return False

    def size_hint(self):
        return len(self.seq.items)


class SeqEnum(Enum):
    """String (chars) and Split: a precomputed immutable sequence, no size hint"""

    def __init__(self, parts, name):
        self.parts = parts
        self.name = name
        self.index = 0
        self.cur = None

    def next(self, it):
        if self.index < len(self.parts):
            self.cur = self.parts[self.index]
            self.index += 1
            return True
        self.cur = None
        return False


def map_version(it, m):
    vers = getattr(it, 'map_versions', None)
    if vers is None:
        vers = it.map_versions = {}
    e = vers.get(id(m))
    if e is None:
        e = vers[id(m)] = [m, 0]
    return e


class MapEnum(Enum):
    name = 'Map'

    def __init__(self, it, m):
        self.m = m
        self.ver = map_version(it, m)
        self.at = self.ver[1]
        self.index = 0
        self.cur = None

    def next(self, it):
        if self.ver[1] != self.at:
            raise Refuse('map iterator advanced after the map changed (dangling raw iterator)')
        n = len(self.m.d)
        if self.index >= n:
            self.cur = None
            return False
        if n > 1:
            raise Refuse('iteration over a map with several entries (hash order)')
        (k, v), = self.m.d.values()
        self.index += 1
        self.cur = LyList([k, v])
        return True

    def size_hint(self):
        return len(self.m.d)


class TimesEnum(Enum):
    name = 'Times'

    def __init__(self, mx):
        self.cur = -1.0
        self.max = mx - 1.0

    def next(self, it):
        if self.cur < self.max:
            self.cur += 1.0
            return True
        return False

    def size_hint(self):
        return as_usize(self.max + 1.0)


class UntilEnum(Enum):
    name = 'Until'

    def __init__(self, lo, hi, stride):
        self.cur = lo - stride
        self.max = hi - stride
        self.stride = stride

    def next(self, it):
        if self.cur < self.max:
            self.cur += self.stride
            return True
        return False


class TakeEnum(Enum):
    name = 'Take'

    def __init__(self, src, count):
        self.src = src
        self.count = count
        self.taken = 0

    def current(self):
        return self.src.cur

    def next(self, it):
        if self.taken >= self.count or is_falsey(advance(it, self.src)):
            return False
        self.taken += 1
        return True

    def size_hint(self):
        h = size_hint(self.src)
        return None if h is None else min(h, self.count)


class SkipEnum(Enum):
    name = 'Skip'

    def __init__(self, src, count):
        self.src = src
        self.count = count

    def current(self):
        return self.src.cur

    def next(self, it):
        return advance(it, self.src)

    def size_hint(self):
        h = size_hint(self.src)
        return None if h is None else max(h - self.count, 0)


class MapAdaptEnum(Enum):
    name = 'Map'

    def __init__(self, src, fn):
        self.src = src
        self.fn = fn
        self.cur = None

    def next(self, it):
        if is_falsey(advance(it, self.src)):
            return False
        self.cur = it.call_value(self.fn, [self.src.cur])
        return True

    def size_hint(self):
        return size_hint(self.src)


class FilterEnum(Enum):
    name = 'Filter'

    def __init__(self, src, fn):
        self.src = src
        self.fn = fn
        self.cur = None

    def next(self, it):
        while not is_falsey(advance(it, self.src)):
            cur = self.src.cur
            if not is_falsey(it.call_value(self.fn, [cur])):
                self.cur = cur
                return True
        return False


class ZipEnum(Enum):
    name = 'Zip'

    def __init__(self, srcs):
        self.srcs = srcs
        self.cur = None

    def next(self, it):
        out = []
        for s in self.srcs:
            if is_falsey(advance(it, s)):
                return False
            out.append(s.cur)
        self.cur = LyTuple(out)
        return True

    def size_hint(self):
        acc = USIZE_MAX
        for s in self.srcs:
            h = size_hint(s)
            if h is None:
                return None
            acc = min(acc, h)
        return acc


class ChainEnum(Enum):
    name = 'Chain'

    def __init__(self, srcs):
        self.srcs = srcs
        self.index = 0
        self.cur = None

    def next(self, it):
        while True:
            if self.index >= len(self.srcs):
                return False
            s = self.srcs[self.index]
            if not is_falsey(advance(it, s)):
                self.cur = s.cur
                return True
            self.index += 1

    def size_hint(self):
        acc = 0
        for s in self.srcs:
            h = size_hint(s)
            if h is None:
                return None
            acc += h
            if acc > USIZE_MAX:
                raise Refuse('size hint overflow in chain')
        return acc


def collect(it, src):
    """IterToList / ListCollect / TupleCollect: python list of the items and
    whether the VM's list was allocated with zero capacity"""
    hint = size_hint(src)
    if hint is not None and hint > COLLECT_LIMIT:
        raise Refuse('collecting an iterator with a huge size hint (allocation)')
    out = []
    while not is_falsey(advance(it, src)):
        if hint == 0:
            raise Refuse('push onto a list collected with capacity 0')
        out.append(src.cur)
    return out, hint == 0


@ITER.add('str', 0)
def _iter_str(it, a):
    return iter_name(a[0])


@ITER.add('next', 0)
def _iter_next(it, a):
    return advance(it, a[0])


@ITER.add('current', 0)
def _iter_current(it, a):
    return a[0].cur


@ITER.add('iter', 0)
def _iter_iter(it, a):
    return a[0]


@ITER.add('first', 0)
def _iter_first(it, a):
    if not is_falsey(advance(it, a[0])):
        return a[0].cur
    return None


@ITER.add('last', 0)
def _iter_last(it, a):
    r = None
    while not is_falsey(advance(it, a[0])):
        r = a[0].cur
    return r


@ITER.add('take', 1, kinds=['num'], stack=True)
def _iter_take(it, a):
    if has_fract(a[1]):
        raise it.rt_error('ValueError', 'Method take takes an integer parameter.')
    return NatIter(it, TakeEnum(a[0], as_usize(a[1])))


@ITER.add('skip', 1, kinds=['num'], stack=True)
def _iter_skip(it, a):
    if has_fract(a[1]) or a[1] < 0.0:
        raise it.rt_error('ValueError', 'Method skip takes an non negative integer parameter.')
    count = as_usize(a[1])
    n = 0
    while n < count and not is_falsey(advance(it, a[0])):
        n += 1
    return NatIter(it, SkipEnum(a[0], count))


@ITER.add('map', 1, kinds=['call'], stack=True)
def _iter_map(it, a):
    return NatIter(it, MapAdaptEnum(a[0], a[1]))


@ITER.add('filter', 1, kinds=['call'], stack=True)
def _iter_filter(it, a):
    return NatIter(it, FilterEnum(a[0], a[1]))


@ITER.add('reduce', 2, kinds=['obj', 'call'], stack=True)
def _iter_reduce(it, a):
    acc = a[1]
    while not is_falsey(advance(it, a[0])):
        acc = it.call_value(a[2], [acc, a[0].cur])
    return acc


@ITER.add('len', 0)
def _iter_len(it, a):
    h = size_hint(a[0])
    if h is not None:
        return usize_to_f64(h)
    n = 0
    while not is_falsey(advance(it, a[0])):
        n += 1
    return float(n)


@ITER.add('each', 1, kinds=['call'], stack=True)
def _iter_each(it, a):
    while not is_falsey(advance(it, a[0])):
        it.call_value(a[1], [a[0].cur])
    return None


@ITER.add('zip', 0, None, kinds=['obj'])
def _iter_zip(it, a):
    return NatIter(it, ZipEnum([need_iter(x, 'zip') for x in a]))


@ITER.add('chain', 0, None, kinds=['obj'])
def _iter_chain(it, a):
    return NatIter(it, ChainEnum([need_iter(x, 'chain') for x in a]))


@ITER.add('all', 1, kinds=['call'], stack=True)
def _iter_all(it, a):
    while not is_falsey(advance(it, a[0])):
        if is_falsey(it.call_value(a[1], [a[0].cur])):
            return False
    return True


@ITER.add('any', 1, kinds=['call'], stack=True)
def _iter_any(it, a):
    while not is_falsey(advance(it, a[0])):
        if not is_falsey(it.call_value(a[1], [a[0].cur])):
            return True
    return False


@ITER.add('list', 0)
def _iter_list(it, a):
    items, zero = collect(it, a[0])
    return LyList(items)


@ITER.add('into', 1, kinds=['call'], stack=True)
def _iter_into(it, a):
    return it.call_value(a[1], [a[0]])


# ---------------------------------------------------------------------------
# Number


@NUMBER.add('str', 0)
def _num_str(it, a):
    return it.to_str(a[0])


@NUMBER.add('floor', 0)
def _num_floor(it, a):
    x = a[0]
    if x != x or x in (INF, -INF):
        return x
    r = float(math.floor(x))
    return math.copysign(0.0, x) if r == 0 else r


@NUMBER.add('ceil', 0)
def _num_ceil(it, a):
    x = a[0]
    if x != x or x in (INF, -INF):
        return x
    r = float(math.ceil(x))
    return math.copysign(0.0, x) if r == 0 else r


@NUMBER.add('round', 0)
def _num_round(it, a):
    """f64::round: half away from zero"""
    x = a[0]
    if x != x or x in (INF, -INF) or abs(x) >= 4503599627370496.0:
        return x
    t = float(math.trunc(x))
    if abs(x - t) >= 0.5:
        t += math.copysign(1.0, x)
    return math.copysign(t, x)


@NUMBER.add('times', 0)
def _num_times(it, a):
    mx = a[0]
    if mx < 0.0 or has_fract(mx):
        raise it.rt_error('ValueError', 'times requires a positive integer.')
    return NatIter(it, TimesEnum(mx))


@NUMBER.add('until', 1, 2, kinds=['num', 'num'], stack=True)
def _num_until(it, a):
    stride = a[2] if len(a) > 2 else 1.0
    if stride <= 0.0:
        raise it.rt_error('ValueError', 'until requires a positive stride.')
    return NatIter(it, UntilEnum(a[0], a[1], stride))


DECIMAL = re.compile(r'[+-]?(?:[0-9]+\.?[0-9]*|\.[0-9]+)(?:[eE][+-]?[0-9]+)?\Z')
SPECIAL = re.compile(r'[+-]?(?:inf|infinity|nan)\Z', re.I)


@STATIC['Number'].add('parse', 1, kinds=['str'], stack=True)
def _num_parse(it, a):
    """<f64 as FromStr>::from_str: optional sign, then inf / infinity / nan in
    any case, or digits with an optional point and exponent. No whitespace, no
    underscores, no radix prefixes."""
    s = a[1]
    if DECIMAL.match(s) or SPECIAL.match(s):
        return float(s)
    raise it.rt_error('FormatError', 'Unable to parse number from ' + s)


@STATIC['Number'].add('cmp', 2, kinds=['num', 'num'])
def _num_cmp(it, a):
    return a[1] - a[2]


# ---------------------------------------------------------------------------
# indices


def determine_index(it, n, index):
    """List / Tuple `[]`"""
    if has_fract(index):
        raise it.rt_error('IndexError', 'Index must be an integer.')
    if index < 0.0:
        neg = as_usize(-index)
        if neg > n:
            raise it.rt_error('IndexError', 'Index out of bounds.')
        return n - neg
    i = as_usize(index)
    if i >= n:
        raise it.rt_error('IndexError', 'Index out of bounds.')
    return i


def slice_index(it, n, index):
    if has_fract(index):
        raise it.rt_error('IndexError', 'Method slice takes integer parameters')
    if index >= 0.0:
        return as_usize(index)
    return max(n - as_usize(-index), 0)


def slice_bounds(it, n, a):
    if len(a) == 1:
        start, end = 0.0, float(n)
    elif len(a) == 2:
        start, end = a[1], float(n)
    else:
        start, end = a[1], a[2]
    s = slice_index(it, n, start)
    e = slice_index(it, n, end)
    e = min(e, n)
    if s <= e:
        return s, e
    return 0, 0


# ---------------------------------------------------------------------------
# List


@LIST.add('[]', 1, kinds=['num'], stack=True)
def _list_get(it, a):
    return a[0].items[determine_index(it, len(a[0].items), a[1])]


@LIST.add('[]=', 2, kinds=['obj', 'num'], stack=True)
def _list_set(it, a):
    a[0].items[determine_index(it, len(a[0].items), a[2])] = a[1]
    return a[1]


@LIST.add('len', 0)
def _list_len(it, a):
    return float(len(a[0].items))


def check_growable(lst):
    if type(lst) is ZeroCapList:
        raise Refuse('growing a list collected with capacity 0 (heap overflow in the VM)')


@LIST.add('push', 0, None, kinds=['obj'])
def _list_push(it, a):
    if len(a) > 1:
        check_growable(a[0])
        a[0].items.extend(a[1:])
    return None


@LIST.add('pop', 0)
def _list_pop(it, a):
    return a[0].items.pop() if a[0].items else None


@LIST.add('remove', 1, kinds=['num'], stack=True)
def _list_remove(it, a):
    index = a[1]
    if has_fract(index):
        raise it.rt_error('IndexError', 'Index must be an integer.')
    if index < 0.0:
        raise it.rt_error('IndexError', 'Cannot remove at negative index.')
    i = as_usize(index)
    if i >= len(a[0].items):
        raise it.rt_error('IndexError', 'Cannot remove at index, list too small')
    return a[0].items.pop(i)


@LIST.add('index', 1, kinds=['obj'])
def _list_index(it, a):
    for i, x in enumerate(a[0].items):
        if ly_eq(x, a[1]):
            return float(i)
    return None


@LIST.add('insert', 2, kinds=['num', 'obj'], stack=True)
def _list_insert(it, a):
    index = a[1]
    if has_fract(index):
        raise it.rt_error('IndexError', 'Index must be an integer.')
    if index < 0.0:
        raise it.rt_error('IndexError', 'Cannot insert at negative index')
    i = as_usize(index)
    if i > len(a[0].items):
        raise it.rt_error('IndexError', 'Cannot insert at index, list too small')
    check_growable(a[0])
    a[0].items.insert(i, a[2])
    return None


@LIST.add('str', 0, stack=True)
def _list_str(it, a):
    return str_of(it, a[0])


@LIST.add('slice', 0, 2, kinds=['num', 'num'], stack=True)
def _list_slice(it, a):
    s, e = slice_bounds(it, len(a[0].items), a)
    return LyList(a[0].items[s:e])


@LIST.add('clear', 0)
def _list_clear(it, a):
    del a[0].items[:]
    return None


@LIST.add('has', 1, kinds=['obj'])
def _list_has(it, a):
    return any(ly_eq(x, a[1]) for x in a[0].items)


@LIST.add('iter', 0)
def _list_iter(it, a):
    return NatIter(it, ListEnum(a[0], 'List'))


@LIST.add('rev', 0)
def _list_rev(it, a):
    return LyList(a[0].items[::-1])


def sign(x):
    return -1 if x < 0 else (1 if x > 0 else 0)


@LIST.add('sort', 1, kinds=['call'], stack=True)
def _list_sort(it, a):
    """Result of a stable sort of a copy. The VM's sequence of comparator calls
    is an implementation detail of std's sort, so the comparator is evaluated
    on every ordered pair and must describe a strict weak order."""
    items = list(a[0].items)
    cmp = a[1]
    n = len(items)
    if n < 2:
        return LyList(items)
    if n > SORT_LIMIT:
        raise Refuse('sort of a long list')
    printed = len(it.out)
    depth = len(it.frames)
    table = {}
    fails = []
    for i in range(n):
        for j in range(n):
            if i == j:
                continue
            try:
                r = it.call_value(cmp, [items[i], items[j]])
            except LyError as e:
                del it.frames[depth:]
                fails.append(e)
                continue
            if not isinstance(r, float) or r != r:
                fails.append(None)
                continue
            table[(i, j)] = sign(r)
    if len(it.out) != printed:
        del it.out[printed:]
        raise Refuse('sort comparator with visible side effects (call order is unspecified)')
    if fails:
        if len(fails) != n * (n - 1):
            raise Refuse('sort comparator failing on some pairs only')
        if all(f is None for f in fails):
            raise it.rt_error('TypeError', 'comparator must return a number.')
        first = fails[0]
        if first is None:
            raise Refuse('sort comparator failing in different ways')
        for f in fails:
            if f is None or f.inst.cls is not first.inst.cls or \
                    not ly_eq(f.inst.f.get('message'), first.inst.f.get('message')):
                raise Refuse('sort comparator failing in different ways')
        raise first
    import functools
    order = sorted(range(n), key=functools.cmp_to_key(lambda i, j: table[(i, j)]))
    rank = [0] * n
    r = 0
    for k in range(n):
        if k:
            c = table[(order[k - 1], order[k])]
            if c > 0:
                raise Refuse('inconsistent sort comparator')
            if c < 0:
                r += 1
        rank[order[k]] = r
    for (i, j), c in table.items():
        if c != sign(rank[i] - rank[j]):
            raise Refuse('inconsistent sort comparator')
    # equal elements keep their original order
    for k in range(1, n):
        if rank[order[k - 1]] == rank[order[k]] and order[k - 1] > order[k]:
            raise Refuse('inconsistent sort comparator')
    return LyList([items[i] for i in order])


@STATIC['List'].add('collect', 1, kinds=['obj'])
def _list_collect(it, a):
    items, zero = collect(it, need_iter(a[1], 'List.collect'))
    return LyList(items)


# ---------------------------------------------------------------------------
# Tuple


@TUPLE.add('[]', 1, kinds=['num'], stack=True)
def _tuple_get(it, a):
    return a[0].items[determine_index(it, len(a[0].items), a[1])]


@TUPLE.add('len', 0)
def _tuple_len(it, a):
    return float(len(a[0].items))


TUPLE['index'] = LIST['index']
TUPLE['has'] = LIST['has']


@TUPLE.add('str', 0, stack=True)
def _tuple_str(it, a):
    return str_of(it, a[0])


@TUPLE.add('slice', 0, 2, kinds=['num', 'num'], stack=True)
def _tuple_slice(it, a):
    s, e = slice_bounds(it, len(a[0].items), a)
    return LyTuple(a[0].items[s:e])


@TUPLE.add('iter', 0)
def _tuple_iter(it, a):
    return NatIter(it, ListEnum(a[0], 'Tuple'))


@STATIC['Tuple'].add('collect', 1, kinds=['obj'])
def _tuple_collect(it, a):
    items, _ = collect(it, need_iter(a[1], 'Tuple.collect'))
    return LyTuple(items)


# ---------------------------------------------------------------------------
# Map


def map_put(it, m, k, v):
    kk = key_of(k)
    old = m.d.get(kk)
    if old is None:
        m.d[kk] = (k, v)
        map_version(it, m)[1] += 1
        return None
    m.d[kk] = (old[0], v)
    return old[1]


@MAP.add('len', 0)
def _map_len(it, a):
    return float(len(a[0].d))


@MAP.add('[]', 1, kinds=['obj'], stack=True)
def _map_get_index(it, a):
    e = a[0].d.get(key_of(a[1]))
    if e is None:
        raise it.rt_error('KeyError', 'Key not found.')
    return e[1]


@MAP.add('[]=', 2, kinds=['obj', 'obj'])
def _map_set_index(it, a):
    map_put(it, a[0], a[2], a[1])
    return a[1]


@MAP.add('str', 0, stack=True)
def _map_str(it, a):
    return str_of(it, a[0])


@MAP.add('has', 1, kinds=['obj'])
def _map_has(it, a):
    return key_of(a[1]) in a[0].d


@MAP.add('get', 1, kinds=['obj'])
def _map_get(it, a):
    e = a[0].d.get(key_of(a[1]))
    return None if e is None else e[1]


@MAP.add('set', 2, kinds=['obj', 'obj'])
def _map_set(it, a):
    return map_put(it, a[0], a[1], a[2])


@MAP.add('insert', 2, kinds=['obj', 'obj'])
def _map_insert(it, a):
    return map_put(it, a[0], a[1], a[2])


@MAP.add('remove', 1, kinds=['obj'], stack=True)
def _map_remove(it, a):
    kk = key_of(a[1])
    e = a[0].d.get(kk)
    if e is None:
        raise it.rt_error('KeyError', 'Key not found in map.')
    del a[0].d[kk]
    map_version(it, a[0])[1] += 1
    return e[1]


@MAP.add('iter', 0)
def _map_iter(it, a):
    return NatIter(it, MapEnum(it, a[0]))


# ---------------------------------------------------------------------------
# String

# Unicode White_Space (what str::trim removes)
WHITE_SPACE = set(chr(c) for c in (list(range(0x09, 0x0e)) + [0x20, 0x85, 0xa0, 0x1680] +
                                   list(range(0x2000, 0x200b)) + [0x2028, 0x2029, 0x202f, 0x205f, 0x3000]))


def case_safe(s):
    """Characters whose full case mapping was compared between python and the
    VM (see test_lynative.py): ASCII, Latin-1, Latin Extended-A, basic Greek
    (without capital and final sigma, whose lowering depends on context) and
    Cyrillic, general punctuation, CJK symbols, kana, CJK ideographs, emoji."""
    for c in s:
        o = ord(c)
        if o < 0x180:
            continue
        if 0x370 <= o < 0x3a3 or 0x3a4 <= o < 0x3c2 or 0x3c3 <= o < 0x3cf:
            continue
        if 0x400 <= o < 0x460:
            continue
        if 0x2000 <= o < 0x2070 or 0x3000 <= o < 0x3100 or 0x4e00 <= o < 0xa000 or 0x1f300 <= o < 0x1f650:
            continue
        return False
    return True


@STRING.add('[]', 1, kinds=['num'], stack=True)
def _str_get(it, a):
    s, index = a
    if has_fract(index):
        raise it.rt_error('IndexError', 'slice methods takes integer parameters')
    if index >= 0.0:
        i = as_usize(index)
        if i < len(s):
            return s[i]
    else:
        k = as_usize(-index) - 1
        if k < len(s):
            return s[len(s) - 1 - k]
    raise it.rt_error('IndexError', 'Index out of bounds.')


@STRING.add('str', 0)
def _str_str(it, a):
    return a[0]


@STRING.add('len', 0)
def _str_len(it, a):
    return float(len(a[0]))


@STRING.add('has', 1, kinds=['str'])
def _str_has(it, a):
    return a[1] in a[0]


@STRING.add('upCase', 0)
def _str_up(it, a):
    if not case_safe(a[0]):
        raise Refuse('upCase outside the verified character ranges')
    return a[0].upper()


@STRING.add('downCase', 0)
def _str_down(it, a):
    if not case_safe(a[0]):
        raise Refuse('downCase outside the verified character ranges')
    return a[0].lower()


def string_index(it, s, index):
    if has_fract(index):
        raise it.rt_error('IndexError', 'slice methods takes integer parameters')
    n = len(s)
    if index >= 0.0:
        i = as_usize(index)
        return i if i < n else n
    k = as_usize(-index) - 1
    return n - 1 - k if k < n else 0


@STRING.add('slice', 0, 2, kinds=['num', 'num'], stack=True)
def _str_slice(it, a):
    s = a[0]
    # the default end is the byte length used as a character index; it is never
    # smaller than the character count, so it always means "to the end"
    start = a[1] if len(a) > 1 else 0.0
    end = a[2] if len(a) > 2 else float(len(s.encode('utf-8', 'surrogatepass')))
    si = string_index(it, s, start)
    ei = string_index(it, s, end)
    return s[si:ei] if si <= ei else ''


def rust_split(s, sep):
    if sep == '':
        return [''] + list(s) + ['']
    return s.split(sep)


@STRING.add('split', 1, kinds=['str'])
def _str_split(it, a):
    return NatIter(it, SeqEnum(rust_split(a[0], a[1]), 'Split'))


def trim_start(s):
    i = 0
    while i < len(s) and s[i] in WHITE_SPACE:
        i += 1
    return s[i:]


def trim_end(s):
    i = len(s)
    while i > 0 and s[i - 1] in WHITE_SPACE:
        i -= 1
    return s[:i]


@STRING.add('trim', 0)
def _str_trim(it, a):
    return trim_end(trim_start(a[0]))


@STRING.add('trimStart', 0)
def _str_trim_start(it, a):
    return trim_start(a[0])


@STRING.add('trimEnd', 0)
def _str_trim_end(it, a):
    return trim_end(a[0])


@STRING.add('iter', 0)
def _str_iter(it, a):
    return NatIter(it, SeqEnum(list(a[0]), 'String'))


# ---------------------------------------------------------------------------
# Bool / Nil


@BOOL.add('str', 0)
def _bool_str(it, a):
    return 'true' if a[0] is True else 'false'


@NIL.add('str', 0)
def _nil_str(it, a):
    return 'nil'


# ---------------------------------------------------------------------------
# callables


def closure_params(clo):
    fn = clo.fn
    return fn.b if fn.k == 'fn' else fn.a


def annotate_lambda_names(stmts):
    """Optional pre-pass over a program (list of lyast statements): stores in
    every lambda node's spare slot `x` the name the VM gives that function. The
    parser names a lambda after the innermost `let` whose initializer encloses
    it lexically (at any depth, also through nested fn / class / lambda bodies),
    and "lambda" otherwise. That name is what `name()` returns and what
    backtraces show (`in g()` for `let g = |x| ...`)."""
    from lyast import N

    def walk(x, let_name):
        if isinstance(x, N):
            if x.k == 'let':
                walk(x.b, x.a)
                return
            if x.k == 'lambda':
                x.x = let_name or 'lambda'
                walk(x.b, let_name)
                return
            if x.k in ('num', 'str', 'bool', 'nil', 'var', 'raw', 'raws'):
                return
            for f in (x.a, x.b, x.c, x.d, x.e):
                walk(f, let_name)
        elif isinstance(x, (list, tuple)):
            for y in x:
                walk(y, let_name)

    walk(stmts, None)


@FUN.add('name', 0)
def _fun_name(it, a):
    if a[0].kind == 'lambda':
        name = getattr(a[0].fn, 'x', None)
        if not isinstance(name, str):
            # see annotate_lambda_names: the evaluator does not track the name
            raise Refuse('name of a lambda (depends on an enclosing let; run annotate_lambda_names first)')
        return name
    return a[0].name


@FUN.add('len', 0)
def _fun_len(it, a):
    return float(len(closure_params(a[0])))


@FUN.add('call', 0, None, kinds=['obj'], stack=True)
def _fun_call(it, a):
    return it.call_value(a[0], a[1:])


@METHOD.add('name', 0)
def _method_name(it, a):
    fn = a[0].fn
    if isinstance(fn, LyNative):
        return fn.name
    if isinstance(fn, LyClosure):
        return _fun_name(it, [fn])
    raise Refuse('name of a method wrapping this value')


@METHOD.add('call', 0, None, kinds=['obj'], stack=True)
def _method_call(it, a):
    return it.call_value(a[0], a[1:])


@NATIVE.add('name', 0)
def _native_name(it, a):
    return a[0].name


@NATIVE.add('call', 0, None, kinds=['obj'], stack=True)
def _native_call(it, a):
    return it.call_value(a[0], a[1:])


# ---------------------------------------------------------------------------
# Class


@CLASS.add('superCls', 0)
def _class_super(it, a):
    return a[0].sup


@CLASS.add('str', 0)
def _class_str(it, a):
    raise Refuse('Class.str prints an address')


@CLASS.add('name', 0)
def _class_name(it, a):
    return a[0].name


# ---------------------------------------------------------------------------
# entry points


def lookup(it, obj, name):
    """The built-in method `name` of `obj` (a LyNative taking [receiver, args...])
    or None."""
    if obj is None:
        t = NIL
    elif isinstance(obj, bool):
        t = BOOL
    elif isinstance(obj, float):
        t = NUMBER
    elif isinstance(obj, str):
        t = STRING
    elif isinstance(obj, LyList):
        t = LIST
    elif isinstance(obj, LyTuple):
        t = TUPLE
    elif isinstance(obj, LyMap):
        t = MAP
    elif isinstance(obj, LyIter):
        t = ITER
    elif isinstance(obj, LyClosure):
        t = FUN
    elif isinstance(obj, LyMethod):
        t = METHOD
    elif isinstance(obj, LyNative):
        t = NATIVE
    elif isinstance(obj, LyClass):
        reg = getattr(it, 'builtin_classes', None)
        if reg is not None and obj.builtin and reg.get(obj.name) is obj:
            st = STATIC.get(obj.name)
            if st is not None and name in st:
                return st[name]
        t = CLASS
    elif isinstance(obj, LyInstance):
        t = OBJECT
    elif isinstance(obj, LyModule):
        return None
    else:
        return None
    m = t.get(name)
    if m is None:
        m = OBJECT.get(name)
    return m


def iter_of(it, v):
    """`for x in v`: the VM invokes v.iter() (PropertyError when there is none)"""
    if isinstance(v, LyIter):
        return v
    r = it.call_method_by_name(v, 'iter', [])
    if isinstance(r, LyIter):
        return r
    return UserIter(it, r)


def _no_construct(it, a):
    raise Refuse('constructing a builtin class')


def install_globals(it):
    g = it.globals.vars
    reg = {}
    init = LyNative('init', _no_construct, 0, None, is_method=True)
    for name in BUILTIN_CLASS_NAMES:
        if name in g:
            continue
        c = LyClass(name, it.object_class, builtin=True)
        c.init = init
        reg[name] = c
        g[name] = Cell(c)
    it.builtin_classes = reg
    it.map_versions = {}
    # every class inherits Object's natives (reachable through `super.` too);
    # classes that exist already got their method table copied before this ran
    for cls in [it.object_class] + list(getattr(it, 'errors', {}).values()):
        for name, nat in OBJECT.items():
            cls.methods.setdefault(name, nat)
