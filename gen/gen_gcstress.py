"""C20 workload: steady-state loops that create garbage of one object kind
while keeping a bounded amount of data alive. `loops()` returns
{name: template} where the template takes the iteration count."""

LOOPS = {
    'strings': 'let keep = "";\nfor i in %(n)d.times() { let s = "item ${i}"; let t = s + "!"; keep = t.slice(0, 3); }\nprint(keep.len());\n',
    'lists_grow_drop': 'let total = 0;\nfor i in %(n)d.times() { let l = []; for j in 20.times() { l.push(j); } total = total + l.len(); }\nprint(total > 0);\n',
    'list_literals': 'let last = nil;\nfor i in %(n)d.times() { last = [i, i + 1, [i, "x"], (i, i)]; }\nprint(last.len());\n',
    'maps': 'let last = nil;\nfor i in %(n)d.times() { let m = {}; m[i] = "v"; m["k${i}"] = i; m[[i]] = 1; last = m; }\nprint(last.len());\n',
    'instances': 'class P { init(a) { self.a = a; self.b = [a]; } get() { self.a } }\nlet s = 0;\nfor i in %(n)d.times() { let p = P(i); s = s + p.get() - i; }\nprint(s);\n',
    'closures': 'let last = nil;\nfor i in %(n)d.times() { let c = i; let f = || c + 1; let g = || f() + c; last = g; }\nprint(last() > 0);\n',
    'bound_methods': 'class Q { init() { self.v = 1; } m() { self.v } }\nlet q = Q();\nlet s = 0;\nfor i in %(n)d.times() { let b = q.m; s = s + b(); }\nprint(s > 0);\n',
    'fibers_complete': 'let ch = chan(1);\nfn w(c, i) { c <- i; }\nlet s = 0;\nfor i in %(n)d.times() { launch w(ch, i); s = s + (<- ch) - i; }\nprint(s);\n',
    'channels': 'let s = 0;\nfor i in %(n)d.times() { let c = chan(2); c <- i; c <- [i]; s = s + (<- c) - i; }\nprint(s);\n',
    'iterators': 'let s = 0;\nfor i in %(n)d.times() { s = s + [1, 2, 3].iter().map(|x| x * 2).filter(|x| x > 2).take(5).list().len(); }\nprint(s > 0);\n',
    'zip_chain': 'let s = 0;\nfor i in %(n)d.times() { s = s + [1, 2].iter().zip([3, 4].iter()).chain([(5, 6)].iter()).list().len(); }\nprint(s > 0);\n',
    'errors_caught': 'let n = 0;\nfor i in %(n)d.times() { try { raise Error("e${i}"); } catch e: Error { n = n + e.backTrace.len(); } }\nprint(n > 0);\n',
    'runtime_errors_caught': 'fn bad(x) { return x - nil; }\nlet n = 0;\nfor i in %(n)d.times() { try { bad(i); } catch e: Error { n = n + 1; } }\nprint(n);\n',
    'errors_through_natives': 'fn g() { [1, 2, 3, 4].iter().map(|x| [][x]).list() }\nlet n = 0;\nfor i in %(n)d.times() { try { g(); } catch e: Error { n = n + 1; } }\nprint(n);\n',
    'errors_through_collect': 'let n = 0;\nfor i in %(n)d.times() { try { List.collect([1, 2].iter().map(|x| [][x])); } catch e: Error { n = n + 1; } try { Tuple.collect([1].iter().map(|x| [][x])); } catch e: Error { n = n + 1; } }\nprint(n);\n',
    'sort_errors': 'let n = 0;\nfor i in %(n)d.times() { try { [3, 1, 2].sort(|a, b| [][1]); } catch e: Error { n = n + 1; } }\nprint(n);\n',
    'classes_in_loop': 'fn mk(i) { class T { init() { self.i = 1; } get() { self.i } } return T(); }\nlet s = 0;\nfor i in %(n)d.times() { s = s + mk(i).get(); }\nprint(s > 0);\n',
    'tuples_strs': 'let s = 0;\nfor i in %(n)d.times() { let t = (i, "a", [i]); s = s + t.str().len() - t.str().len(); }\nprint(s);\n',
    'string_split_iter': 'let s = 0;\nfor i in %(n)d.times() { for p in "a,b,c,${i}".split(",") { s = s + p.len() - p.len(); } }\nprint(s);\n',
    'number_str_parse': 'let s = 0;\nfor i in %(n)d.times() { s = s + Number.parse((i + 0.5).str()) - i - 0.5; }\nprint(s);\n',
    'interned_recreate': 'let s = 0;\nfor i in %(n)d.times() { let a = "same" + "-" + "text"; let b = "same-${"text"}"; if a == b { s = s + 1; } }\nprint(s > 0);\n',
    'kept_window': 'let win = [nil, nil, nil, nil, nil, nil, nil, nil];\nfor i in %(n)d.times() { win[i - (i / 8).floor() * 8] = ["live", i, {"k": i}]; }\nprint(win.len());\n',
    'assert_failures': 'let n = 0;\nfor i in %(n)d.times() { try { assertEq(i, "x${i}"); } catch e: Error { n = n + 1; } }\nprint(n);\n',
    'channel_ring': 'let c = chan(3);\nfn box(v) { return [v, "p${v}"]; }\nlet s = 0;\nc <- box(0); c <- box(1);\nfor i in %(n)d.times() { c <- box(i + 2); let junk = ["j${i}", [i]]; let r = <- c; s = s + r[0] - i; }\nprint(s, (<- c)[1].len() > 0, (<- c)[0] > 0);\n',
    'channel_ring_cap2': 'let c = chan(2);\nlet s = 0;\nc <- [0];\nfor i in %(n)d.times() { c <- ["v${i}", i]; let junk = "j${i}" + "k"; let r = <- c; s = s + r.len(); }\nprint(s > 0);\n',
    'sleeping_fiber_stack': 'let go = chan();\nlet back = chan();\nfn w(n) { let mine = ["only", "on", "this", "stack"]; let t = (mine, "tuple"); for i in n.times() { let fresh = ["f${i}", mine]; <- go; back <- mine.len() + t.len() + fresh[1].len() - 4; } }\nlaunch w(%(n)d);\nlet s = 0;\nfor i in %(n)d.times() { let junk = []; for j in 6.times() { junk.push("g${j}"); } go <- 1; s = s + (<- back) - 6; }\nprint(s);\n',
    'error_held_by_fiber': 'fn deep(n) { if n == 0 { raise Error("deep ${n}", Error("inner")); } return deep(n - 1); }\nlet s = 0;\nfor i in %(n)d.times() { try { deep(5); } catch e: Error { let junk = ["a${i}", "b${i}"]; s = s + e.backTrace.len() + e.inner.message.len() - 11; } }\nprint(s);\n',
    'iterator_holds_closure': 'let s = 0;\nfor i in %(n)d.times() { let k = [i, i + 1]; let it = [1, 2, 3].iter().map(|x| x + k[0]).filter(|x| x >= k[0]); let junk = "z${i}"; s = s + it.list().len() - 3; }\nprint(s);\n',
    'bound_method_holds_receiver': 'class H { init(v) { self.v = [v, "s${v}"]; } get() { self.v[0] } }\nlet s = 0;\nfor i in %(n)d.times() { let m = H(i).get; let junk = ["q${i}"]; s = s + m() - i; }\nprint(s);\n',
    'map_keys_values_only': 'let m = {};\nlet s = 0;\nfor i in %(n)d.times() { m["k${i - (i / 4).floor() * 4}"] = ["val", i]; let junk = "w${i}"; s = s + m.len(); }\nprint(s > 0, m["k0"][0]);\n',
    'module_snapshot': 'class Z { init() { self.items = []; } add(x) { self.items.push(x); return self.items.len(); } }\nlet z = Z();\nlet s = 0;\nfor i in %(n)d.times() { if z.items.len() > 6 { z.items.clear(); } s = s + z.add(["it${i}"]) - z.items.len(); }\nprint(s);\n',
    'reduce_heap_accumulator': 'let s = 0;\nfor i in %(n)d.times() { let r = ["a", "b", "c", "d"].iter().map(|x| x + "${i}").reduce(">", |acc, c| acc + c); s = s + r.len(); }\nprint(s > 0);\n',
    'reduce_list_accumulator': 'let s = 0;\nfor i in %(n)d.times() { let r = [1, 2, 3].iter().map(|x| [x, "v${i}"]).reduce([], |acc, c| [acc, c, "k${i}"]); s = s + r.len(); }\nprint(s > 0);\n',
    'sort_allocating_comparator': 'let s = 0;\nfor i in %(n)d.times() { let l = ["b${i}", "a${i}", "c${i}"].sort(|a, b| { let t = [a, b, "t${i}"]; return a < b ? -1 : (a > b ? 1 : 0); }); s = s + l.len(); }\nprint(s > 0);\n',
    'callbacks_raise_reduce': 'let n = 0;\nfor i in %(n)d.times() { try { [1, 2, 3].iter().reduce(["acc ${i}"], |a, x| [][x]); } catch e: Error { n = n + 1; } }\nprint(n);\n',
    'callbacks_raise_each_all_any': 'let n = 0;\nfor i in %(n)d.times() { try { [1, 2].iter().each(|x| [][x]); } catch e: Error { n = n + 1; } try { [1, 2].iter().all(|x| [][x]); } catch e: Error { n = n + 1; } try { [1, 2].iter().any(|x| [][x]); } catch e: Error { n = n + 1; } }\nprint(n);\n',
    'callbacks_raise_zip': 'let n = 0;\nfor i in %(n)d.times() { try { [1, 2].iter().zip([1, 2].iter().map(|x| [][x])).list(); } catch e: Error { n = n + 1; } }\nprint(n);\n',
    'native_errors_first_statement': 'let n = 0;\nfor i in %(n)d.times() { try { assertEq("a${i}", "expected"); } catch e: Error { if e.message != "Expected \'a${i}\' to equal \'expected\'." { print("BAD", e.message); } n = n + 1; } }\nprint(n);\n',
}


def loops():
    return dict(LOOPS)


def source(rng):
    name = rng.choice(sorted(LOOPS))
    return LOOPS[name] % {'n': rng.choice([30, 80, 200])}
