"""C18 generator: call chains of every shape ending in a raise / runtime error,
caught at some depth (message, inner, backTrace printed) or not at all
(traceback on stderr), plus exit(n) programs. One statement per physical line."""
import random
from lyast import *


def case(rng):
    r = rng
    tags = set()
    stmts = []
    depth = r.randint(1, 10)
    u = [0]

    def uniq():
        u[0] += 1
        return u[0]
    # build the chain from the innermost callee outwards
    cls_name = r.choice(['Error', 'ValueError', 'TypeError', 'RuntimeError', 'MyErr'])
    stmts.append(Class('MyErr', 'Error', None, []))
    stmts.append(Class('NeverErr', 'Error', None, []))
    msg = 'msg%d' % uniq()
    raise_kind = r.choice(['raise', 'raise', 'raise_inner', 'operator', 'index', 'arity', 'notcallable'])
    tags.add('site:' + raise_kind)
    if raise_kind == 'raise':
        site = [Raise(Call(Var(cls_name), [Str(msg)]))]
        exp_cls = cls_name
    elif raise_kind == 'raise_inner':
        site = [Raise(Call(Var(cls_name), [Str(msg), Call(Var('Error'), [Str('inner-' + msg)])]))]
        exp_cls = cls_name
    elif raise_kind == 'operator':
        site = [Let('bad', Bin('-', Nil(), Num(1)))]
        exp_cls = 'RuntimeError'
    elif raise_kind == 'index':
        site = [Let('bad', Index(ListLit([Num(1)]), Num(9)))]
        exp_cls = 'IndexError'
    elif raise_kind == 'arity':
        site = [ExprS(Call(Var('two_args'), [Num(1)]))]
        stmts.append(Fn('two_args', ['a', 'b'], [Return(Var('a'))]))
        exp_cls = 'RuntimeError'
    else:
        site = [ExprS(Call(Num(5), []))]
        exp_cls = 'RuntimeError'
    # padding statements before the site so lines vary
    def pad():
        out = []
        for _ in range(r.randint(0, 2)):
            if r.random() < 0.25:
                # a string value with line breaks: printed as a literal spanning several physical lines
                tags.add('pad:multiline-string')
                out.append(Let('pad%d' % uniq(), Str('\n'.join('row%d' % uniq() for _ in range(r.randint(2, 4))))))
            else:
                out.append(Let('pad%d' % uniq(), Num(uniq())))
        return out

    def guard(body_stmts):
        # handlers that are searched and do not match: zero, one or two try blocks around the failing statement in
        # the same frame, each with one or two non-matching clauses
        n_try = r.choice([0, 0, 1, 1, 2])
        for _ in range(n_try):
            tags.add('frame:nonmatching-try')
            clauses = [('q%d' % uniq(), 'NeverErr', [Print([Str('wrong handler')])])
                       for _ in range(r.randint(1, 2))]
            body_stmts = pad() + [Try(body_stmts, clauses)] + pad()
        return body_stmts
    callee = None        # expression that, when evaluated as a statement, calls into the chain
    levels = []
    inner_call = None
    for d in range(depth):
        kind = r.choice(['fn', 'fn', 'method', 'init', 'lambda_let', 'native_each', 'native_map', 'native_reduce',
                         'static'])
        name = 'lvl%d' % d
        body = pad() + guard(site if inner_call is None else [ExprS(inner_call)]) + pad()
        tags.add('frame:' + kind)
        if kind == 'fn':
            stmts.append(Fn(name, ['a'], body))
            inner_call = Call(Var(name), [Num(d)])
        elif kind == 'method':
            cn = 'C%d' % d
            stmts.append(Class(cn, None, None, [Fn(name, ['a'], body)]))
            inner_call = Call(Prop(Call(Var(cn), []), name), [Num(d)])
        elif kind == 'static':
            cn = 'S%d' % d
            stmts.append(Class(cn, None, None, [], [Fn(name, ['a'], body)]))
            inner_call = Call(Prop(Var(cn), name), [Num(d)])
        elif kind == 'init':
            cn = 'I%d' % d
            stmts.append(Class(cn, None, Fn('init', ['a'], [ExprS(Assign(Prop(Self(), 'a'), Var('a')))] + body), []))
            inner_call = Call(Var(cn), [Num(d)])
        elif kind == 'lambda_let':
            stmts.append(Let(name, Lambda(['a'], body, False)))
            inner_call = Call(Var(name), [Num(d)])
        else:
            # a native with its own frame calling back into an anonymous or named lambda
            fname = name
            stmts.append(Fn(fname, ['a'], body + [Return(Num(0))]))
            how = kind.split('_')[1]
            src = Call(Prop(ListLit([Num(1), Num(2)]), 'iter'), [])
            if how == 'each':
                inner_call = Call(Prop(src, 'each'), [Lambda(['x'], Call(Var(fname), [Var('x')]), True)])
            elif how == 'map':
                inner_call = Call(Prop(Call(Prop(src, 'map'), [Var(fname)]), 'list'), [])
            else:
                inner_call = Call(Prop(src, 'reduce'), [Num(0), Lambda(['acc', 'x'], Call(Var(fname), [Var('x')]), True)])
    # where is it caught?
    catch_at = r.choice(['none', 'none', 'top', 'top', 'mid'])
    tags.add('catch:' + catch_at)
    report = [Print([Str('class ok')]),
              Print([Str('bt'), Call(Prop(Prop(Var('e'), 'backTrace'), 'len'), [])]),
              For('ln', Call(Prop(Prop(Var('e'), 'backTrace'), 'iter'), []), [Print([Str('  at'), Var('ln')])])]
    if raise_kind in ('raise', 'raise_inner'):
        report.insert(0, Print([Str('message'), Prop(Var('e'), 'message')]))
    if raise_kind == 'raise_inner':
        report.insert(1, Print([Str('inner'), Prop(Prop(Var('e'), 'inner'), 'message')]))
    if catch_at == 'top':
        stmts += pad()
        stmts.append(Try(pad() + [ExprS(inner_call)], [('e', exp_cls if r.random() < 0.7 else None, report)]))
        stmts.append(Print([Str('after')]))
    elif catch_at == 'mid':
        stmts.append(Fn('catcher', [], pad() + [Try([ExprS(inner_call)], [('e', 'Error', report)]), Return(Num(1))]))
        stmts += pad()
        stmts.append(Print([Str('ret'), Call(Var('catcher'), [])]))
    else:
        stmts += pad()
        stmts.append(Print([Str('before')]))
        if r.random() < 0.5:
            stmts.append(Fn('outermost', [], pad() + [ExprS(inner_call)]))
            stmts.append(ExprS(Call(Var('outermost'), [])))
        else:
            stmts.append(ExprS(inner_call))
    return {'stmts': stmts, 'tags': tags, 'kind': 'trace'}


def exit_case(rng):
    r = rng
    n = r.choice([0, 1, 2, 7, 255, 256, 65535, 3, 42])
    depth = r.randint(0, 4)
    stmts = [Print([Str('start')])]
    call = Call(Var('exit'), [Num(n)])
    for d in range(depth):
        name = 'e%d' % d
        stmts.append(Fn(name, [], [Print([Str('in ' + name)]), ExprS(call), Print([Str('unreachable')])]))
        call = Call(Var(name), [])
    if r.random() < 0.3:
        stmts.append(Try([ExprS(call)], [('e', None, [Print([Str('caught?')])])]))
    else:
        stmts.append(ExprS(call))
    stmts.append(Print([Str('unreachable end')]))
    return {'stmts': stmts, 'tags': {'exit:%d' % n}, 'kind': 'exit', 'code': n}
