"""Corpus kind 'natives': programs from the native probe table and the seeded
pipeline / collection fuzzers of test_lynative (text only; the model-based
verdict on them belongs to C11, here they feed the self-differential checks)."""
import random

_TABLE = []


def _table():
    if not _TABLE:
        import test_lynative as T
        import lyast
        saved = list(T.PROBES)
        T.PROBES[:] = []
        for f in (T.index_probes, T.number_probes, T.string_probes, T.list_probes, T.sort_probes, T.tuple_probes,
                  T.map_probes, T.iter_probes, T.callable_probes):
            f()
        T.pipeline_fuzz_probes(300, 777)
        T.collection_fuzz_probes(300, 778)
        for p in T.PROBES:
            if p.mode == 'refuse':
                continue          # these are the known crashers (C16)
            try:
                _TABLE.append(lyast.to_source(p.stmts))
            except Exception:
                pass
        T.PROBES[:] = saved
    return _TABLE


def source(rng):
    t = _table()
    return rng.choice(t)
