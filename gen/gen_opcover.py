"""Targeted programs in which every expression / statement form the compiler
can emit sits (a) before a try in a function with parameters and locals, so a
wrong compile-time depth shows up as a wrong handler depth, and (b) at the
bottom of a deep expression, so an under-counted push shows up as an
under-reservation."""

SNIPPETS = {
    'map1': 'let m__ = {"k": a};',
    'map3': 'let m__ = {"k": a, "j": p, 3: nil};',
    'map_nested': 'let m__ = {"k": {"i": [a, p]}, "j": (a, p)};',
    'list3': 'let l__ = [a, p, 3];',
    'tuple3': 'let t__ = (a, p, 3);',
    'interp': 'let s__ = "x${a}y${p}z${nil}";',
    'ternary': 'let t__ = a ? p : nil;',
    'and_or': 'let t__ = a && p || nil;',
    'call2': 'let t__ = g__(a, p);',
    'invoke': 'let t__ = [a].len();',
    'invoke_args': 'let t__ = [a, p].slice(0, 1);',
    'prop_get': 'let t__ = o__.x;',
    'prop_set': 'o__.x = a;',
    'prop_opassign': 'o__.x += 1;',
    'index_get': 'let t__ = [a, p][0];',
    'index_set': 'let l__ = [a, p]; l__[0] = 3;',
    'index_opassign': 'let l__ = [1, 2]; l__[0] += 3;',
    'method_value': 'let t__ = o__.get; t__();',
    'super_call': 'let t__ = S__(1).get();',
    'static_call': 'let t__ = O__.make();',
    'channel': 'let c__ = chan(2); c__ <- a; c__ <- p; let t__ = <- c__;',
    'sync_channel': 'let c__ = chan();',
    'launch': 'launch g__(a, p);',
    'closure': 'let k__ = || a + 1; k__();',
    'closure2': 'let k__ = |z| { let w = z + a; return || w + p; }; k__(1)();',
    'class_decl': 'class L__ { init(v) { self.v = v; } get() { self.v } } let t__ = L__(a).get();',
    'for_loop': 'for i__ in 2.times() { let q = i__ + a; }',
    'for_break': 'for i__ in [1, 2, 3] { let q = i__; if q == 2 { break; } }',
    'while_continue': 'let n__ = 0; while n__ < 3 { n__ += 1; let q = n__; if q == 2 { continue; } }',
    'nested_try': 'try { try { raise Error("i"); } catch e: Error { raise Error("o"); } } catch e: Error { }',
    'try_return_fn': 'let r__ = || { try { return 1; } catch e: Error { return 2; } }; r__();',
    'negate_not': 'let t__ = -a; let u__ = !p;',
    'compare': 'let t__ = a < 2 == (a >= 1) != (a <= a) == (a > 0);',
    'arith': 'let t__ = a + 1 - 2 * 3 / 4;',
    'assign_chain': 'let t__ = 1; let u__ = 2; t__ = u__ = a;',
    'str_method': 'let t__ = "a,b".split(",").list();',
    'iter_pipeline': 'let t__ = [1, 2, 3].iter().map(|x| x + a).filter(|x| x > 1).reduce(0, |s, x| s + x);',
    'error_value': 'let t__ = Error("m"); let u__ = t__.message;',
    'receive_in_expr': 'let c__ = chan(1); c__ <- 1; let t__ = [<- c__, a];',
    'box_local': 'let b__ = a; let k__ = || { b__ = b__ + 1; return b__; }; k__();',
    'implicit_lambda': 'let k__ = |x| x; k__(a);',
    'dropn': 'if a { let x1 = 1; let x2 = 2; let x3 = 3; let x4 = 4; }',
    'import_std': 'let t__ = 1;',
}

PRELUDE = '''class O__ {
  init() { self.x = 1; }
  get() { self.x }
  static make() { O__() }
}
class S__ : O__ {
  init(y) { super.init(); self.y = y; }
  get() { super.get() + self.y }
}
fn g__(u, v) { u }
let o__ = O__();
'''


def rename_locals(snip):
    import re
    names = set(re.findall(r'(?:let|class|in) (\w+__)', snip)) | set(re.findall(r'for (\w+__)', snip))
    for n in names:
        snip = re.sub(r'\b%s\b' % n, n[:-2] + '2__', snip)
    return snip


def programs():
    out = {}
    for name, snip in SNIPPETS.items():
        # (a) before and after a try, in a function with params and locals
        out['pre_try_' + name] = PRELUDE + (
            'fn f(p, q) {\n  let a = 1;\n  %s\n  try {\n    %s\n    raise Error("x");\n  } catch e: Error {\n'
            '    print(a, p, q);\n  }\n  let z = 5;\n  print(z, a, p, q);\n  return z;\n}\nprint(f(2, 3));\n' % (
                snip, rename_locals(snip)))
        # (b) inside a loop inside a try inside a method
        out['in_method_' + name] = PRELUDE + (
            'class M__ {\n  run(p) {\n    let a = 1;\n    for w in 2.times() {\n      try {\n        %s\n'
            '        if w == 1 { raise Error("y"); }\n      } catch e: Error {\n        print(a, p, w);\n      }\n    }\n'
            '    return a;\n  }\n}\nprint(M__().run(7));\n' % snip)
    # (a2) forms that only exist inside classes, each before a try in the same method
    class_snips = {
        'super_value': 'let t__ = super.get;',
        'super_value_called_later': 'let t__ = super.get; let u__ = t__();',
        'super_call': 'let t__ = super.get();',
        'super_call_args': 'let t__ = super.add(a, p);',
        'at_get': 'let t__ = @x;',
        'at_set': '@x = a;',
        'at_opassign': '@x += 1;',
        'self_get': 'let t__ = self.x;',
        'self_set': 'self.y = a;',
        'self_chain': 'let t__ = self.other.x;',
        'self_invoke': 'let t__ = self.get();',
        'self_invoke_args': 'let t__ = self.add(a, p);',
        'at_invoke': 'let t__ = @get();',
        'self_method_value': 'let t__ = self.get; t__();',
        'self_closure': 'let t__ = || self.x + a; t__();',
        'static_from_method': 'let t__ = O__.make();',
        'class_in_method': 'class L__ { get() { 1 } } let t__ = L__().get();',
    }
    cprelude = PRELUDE + '''class Base__ {
  init() { self.x = 1; self.y = 2; self.other = nil; }
  get() { self.x }
  add(u, v) { u + v }
}
'''
    for name, snip in class_snips.items():
        out['in_subclass_' + name] = cprelude + (
            'class Sub__ : Base__ {\n  init() { super.init(); self.z = 3; self.other = Base__(); }\n  get() { super.get() + 10 }\n'
            '  run(p, q) {\n    let a = 1;\n    %s\n    try {\n      %s\n      raise Error("x");\n    } catch e: Error {\n'
            '      print(a, p, q, e.message);\n    }\n    let z = 5;\n    print(z, a, p, q);\n    return z;\n  }\n}\n'
            'print(Sub__().run(2, 3));\n' % (snip, rename_locals(snip)))
        if 'super' not in snip:
            out['in_baseclass_' + name] = cprelude.replace('class Base__ {', 'class Base__ {\n  run(p, q) {\n    let a = 1;\n    %s\n    try {\n      %s\n      raise Error("x");\n    } catch e: Error {\n      print(a, p, q, e.message);\n    }\n    let z = 5;\n    return z + a;\n  }' % (snip, rename_locals(snip))) + \
                'let b__ = Base__();\nb__.other = Base__();\nprint(b__.run(2, 3));\n'
    # (c) deep expression nesting around each value producing form
    forms = ['{"k": a}', '[a, p]', '(a, p)', '"x${a}"', 'g__(a, p)', '[a].len()', 'o__.x', '(a ? p : a)',
             '(a && p)', '[a, p][0]', '(|| a)()', 'O__.make().get()', 'S__(1).get()']
    for i, form in enumerate(forms):
        expr = form
        for d in range(12):
            expr = '[%s, [%s]]' % (d, expr) if d % 2 == 0 else 'g__(%s, %d)' % (expr, d)
        out['deep_%d' % i] = PRELUDE + 'fn f(p) {\n  let a = 1;\n  let r = %s;\n  try { raise Error("x"); } catch e: Error { print(a, p); }\n  return a;\n}\nprint(f(2));\n' % expr
    return out


def source(rng):
    progs = programs()
    return progs[rng.choice(sorted(progs))]
