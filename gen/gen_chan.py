"""Fiber / channel networks: generator, Laythe text, Kahn-network model and the
offline history checker (C07, C08).

A network is a dict:
  chans: [cap, ...]           cap 0 = synchronous
  fibers: [[op, ...], ...]    fibers[0] is main
  op: ('send', c, value) | ('recv', c) | ('close', c) | ('len', c) |
      ('launch', fiber) | ('join', fiber)
Every fiber f > 0 has a private done channel (capacity 1) it signals at its
end; ('join', f) receives from it. Events are printed the moment they happen;
the VM switches fibers only inside channel operations, so stdout order is
real-time order observed at the program boundary."""
import random


def gen_network(rng, n_fibers=2, n_chans=2, max_ops=12, srsw=True, allow_close=True, nested_launch=False,
                join_prob=0.7):
    chans = [rng.choice([0, 0, 1, 1, 2, 3]) for _ in range(n_chans)]
    nf = n_fibers
    writers = {}
    readers = {}
    for c in range(n_chans):
        if srsw:
            w, r = rng.sample(range(nf), 2) if nf >= 2 else (0, 0)
            writers[c] = [w]
            readers[c] = [r]
        else:
            k = rng.randint(1, min(3, nf))
            writers[c] = rng.sample(range(nf), k)
            k = rng.randint(1, min(3, nf))
            readers[c] = rng.sample(range(nf), k)
    fibers = []
    counter = [0] * nf
    closers = {}
    for f in range(nf):
        ops = []
        n = rng.randint(0, max_ops)
        mine_w = [c for c in range(n_chans) if f in writers[c]]
        mine_r = [c for c in range(n_chans) if f in readers[c]]
        for _ in range(n):
            x = rng.random()
            if x < 0.45 and mine_w:
                c = rng.choice(mine_w)
                counter[f] += 1
                ops.append(('send', c, f * 1000 + counter[f]))
            elif x < 0.9 and mine_r:
                ops.append(('recv', rng.choice(mine_r)))
            elif x < 0.97:
                ops.append(('len', rng.randrange(n_chans)))
        fibers.append(ops)
    if allow_close:
        for c in range(n_chans):
            if len(writers[c]) == 1 and rng.random() < 0.35:
                w = writers[c][0]
                # after the writer's last send on c
                last = max([i for i, op in enumerate(fibers[w]) if op[0] == 'send' and op[1] == c], default=-1)
                pos = rng.randint(last + 1, len(fibers[w]))
                fibers[w].insert(pos, ('close', c))
                if rng.random() < 0.5:
                    counter[w] += 1
                    fibers[w].insert(rng.randint(pos + 1, len(fibers[w])), ('send_closed', c, w * 1000 + 500 + counter[w]))
    # launches: every fiber > 0 is launched exactly once, by main or (nested) by an earlier fiber
    for f in range(1, nf):
        parent = 0
        if nested_launch and f > 1 and rng.random() < 0.4:
            parent = rng.randrange(1, f)
        pos = rng.randint(0, len(fibers[parent]))
        if parent == 0 and rng.random() < 0.6:
            pos = 0
        fibers[parent].insert(pos, ('launch', f))
    # joins by main, after the launch of that fiber (only for fibers main launched itself)
    for f in range(1, nf):
        if rng.random() < join_prob:
            idx = [i for i, op in enumerate(fibers[0]) if op == ('launch', f)]
            if idx:
                pos = rng.randint(idx[0] + 1, len(fibers[0]))
                if rng.random() < 0.7:
                    pos = len(fibers[0])
                fibers[0].insert(pos, ('join', f))
    return {'chans': chans, 'fibers': fibers, 'srsw': srsw}


def fname(f):
    return 'main' if f == 0 else 'f%d' % f


def to_source(net):
    out = []
    heap = net.get('payload') == 'heap'
    if heap:
        # values travel as heap objects that only the channel buffer references
        out.append('fn box(v) { return [v, "p${v}", (v,)]; }')
        out.append('fn show(r) { if r == nil { return "nil"; } return r[0]; }')
    for c, cap in enumerate(net['chans']):
        out.append('let c%d = chan(%s);' % (c, '' if cap == 0 else str(cap)))
    nf = len(net['fibers'])
    for f in range(1, nf):
        out.append('let d%d = chan(1);' % f)

    def emit_ops(f, ops, ind):
        lines = []
        tmp = 0
        for op in ops:
            k = op[0]
            who = fname(f)
            if k == 'send':
                val = ('box(%d)' % op[2]) if heap else str(op[2])
                lines.append('%sprint("E %s sc c%d %d"); c%d <- %s; print("E %s sr c%d %d");' % (
                    ind, who, op[1], op[2], op[1], val, who, op[1], op[2]))
            elif k == 'send_closed':
                val = ('box(%d)' % op[2]) if heap else str(op[2])
                lines.append('%stry { c%d <- %s; print("E %s sa c%d %d accepted"); } catch e%d: Error { print("E %s sa c%d %d raised"); }' % (
                    ind, op[1], val, who, op[1], op[2], op[2], who, op[1], op[2]))
            elif k == 'recv':
                tmp += 1
                shown = ('${show(r%d)}' % tmp) if heap else ('${r%d}' % tmp)
                lines.append('%sprint("E %s rc c%d"); let r%d = <- c%d; print("E %s rr c%d %s");' % (
                    ind, who, op[1], tmp, op[1], who, op[1], shown))
            elif k == 'close':
                lines.append('%sprint("E %s cc c%d"); c%d.close(); print("E %s cr c%d");' % (
                    ind, who, op[1], op[1], who, op[1]))
            elif k == 'len':
                lines.append('%sprint("E %s ln c%d ${c%d.len()} ${c%d.capacity()}");' % (
                    ind, who, op[1], op[1], op[1]))
            elif k == 'launch':
                lines.append('%sprint("E %s la f%d"); launch f%d();' % (ind, who, op[1], op[1]))
            elif k == 'join':
                tmp += 1
                lines.append('%sprint("E %s jc f%d"); let r%d = <- d%d; print("E %s jr f%d");' % (
                    ind, who, op[1], tmp, op[1], who, op[1]))
        return lines
    for f in range(nf - 1, 0, -1):
        out.append('fn f%d() {' % f)
        out.append('  print("E f%d start");' % f)
        out.extend(emit_ops(f, net['fibers'][f], '  '))
        out.append('  print("E f%d end");' % f)
        out.append('  d%d <- 0;' % f)
        out.append('}')
    out.extend(emit_ops(0, net['fibers'][0], ''))
    out.append('print("E main end");')
    return '\n'.join(out) + '\n'


# ---------------------------------------------------------------------------
# Kahn network model (any fair schedule; determinate for SRSW networks)


def kahn(net):
    """Returns dict(main_done, received{chan: [values]}, blocked{fiber: op})"""
    chans = net['chans']
    nf = len(net['fibers'])
    q = [[] for _ in chans]
    closed = [False] * len(chans)
    done_q = [[] for _ in range(nf)]
    pc = [0] * nf
    started = [False] * nf
    started[0] = True
    finished = [False] * nf
    # for sync channels: the sender stays blocked until its value is taken
    waiting_taken = [None] * nf   # (chan, value)
    received = {c: [] for c in range(len(chans))}
    signalled = [False] * nf

    def step(f):
        if not started[f] or finished[f]:
            return False
        if waiting_taken[f] is not None:
            c, v = waiting_taken[f]
            if v in q[c]:
                return False
            waiting_taken[f] = None
            pc[f] += 1
            return True
        ops = net['fibers'][f]
        if pc[f] >= len(ops):
            finished[f] = True
            if f > 0 and not signalled[f]:
                done_q[f].append(0)
                signalled[f] = True
            return True
        op = ops[pc[f]]
        k = op[0]
        if k == 'send':
            c, v = op[1], op[2]
            if closed[c]:
                raise ValueError('send on closed channel in generated network')
            if chans[c] == 0:
                if q[c]:
                    return False
                q[c].append(v)
                waiting_taken[f] = (c, v)
                return True
            if len(q[c]) < chans[c]:
                q[c].append(v)
                pc[f] += 1
                return True
            return False
        if k == 'recv':
            c = op[1]
            if q[c]:
                received[c].append(q[c].pop(0))
                pc[f] += 1
                return True
            if closed[c]:
                received[c].append(None)
                pc[f] += 1
                return True
            return False
        if k == 'close':
            closed[op[1]] = True
            pc[f] += 1
            return True
        if k == 'send_closed':
            pc[f] += 1
            return True
        if k == 'len':
            pc[f] += 1
            return True
        if k == 'launch':
            started[op[1]] = True
            pc[f] += 1
            return True
        if k == 'join':
            if done_q[op[1]]:
                done_q[op[1]].pop(0)
                pc[f] += 1
                return True
            return False
        raise ValueError(k)
    progress = True
    while progress:
        progress = False
        for f in range(nf):
            while step(f):
                progress = True
    return {'main_done': finished[0], 'received': received,
            'finished': finished, 'pc': pc}


# ---------------------------------------------------------------------------
# history checker


class History:
    def __init__(self, net, stdout):
        self.net = net
        self.events = []
        for line in stdout.split('\n'):
            if line.startswith('E '):
                self.events.append(line.split(' ')[1:])
        self.problems = []       # (rule, text)
        self.n_switch_points = 0

    def check(self):
        net = self.net
        caps = net['chans']
        nchan = len(caps)
        sent_call = {}    # value -> index
        sent_ret = {}
        recv_ret = {}     # value -> index
        per_chan_recv = {c: [] for c in range(nchan)}
        per_chan_sendcall = {c: [] for c in range(nchan)}
        per_chan_sendret = {c: [] for c in range(nchan)}
        close_ret = {}
        value_chan = {}
        for f, ops in enumerate(net['fibers']):
            for op in ops:
                if op[0] == 'send':
                    value_chan[op[2]] = op[1]
        occupancy = [0] * nchan          # sends returned - receives returned (buffered)
        inflight = [0] * nchan           # values accepted by the channel and not yet received
        after_close_nil = {c: False for c in range(nchan)}
        for i, e in enumerate(self.events):
            who, kind = e[0], e[1]
            if kind == 'sc':
                c, v = int(e[2][1:]), int(e[3])
                sent_call[v] = i
                per_chan_sendcall[c].append(v)
            elif kind == 'sr':
                c, v = int(e[2][1:]), int(e[3])
                sent_ret[v] = i
                per_chan_sendret[c].append(v)
                if caps[c] == 0:
                    # rule 5: a synchronous sender proceeds only after its value was taken
                    if v not in recv_ret:
                        self.problems.append(('sync-sender-early',
                                              'send of %d on synchronous c%d returned before any receive took it' % (v, c)))
            elif kind == 'rr':
                c = int(e[2][1:])
                if e[3] == 'nil':
                    if c not in close_ret and not self.closed_called_before(c, i):
                        self.problems.append(('nil-from-open', 'receive on c%d yielded nil although it was never closed' % c))
                    per_chan_recv[c].append(None)
                    continue
                try:
                    v = int(e[3])
                except ValueError:
                    self.problems.append(('invented', 'receive on c%d yielded %r' % (c, e[3])))
                    continue
                if v not in value_chan or value_chan[v] != c:
                    self.problems.append(('invented', 'c%d delivered %d which was never sent to it' % (c, v)))
                    continue
                if v not in sent_call:
                    self.problems.append(('invented', 'c%d delivered %d before its send was called' % (c, v)))
                if v in recv_ret:
                    self.problems.append(('duplicate', 'value %d delivered twice on c%d' % (v, c)))
                recv_ret[v] = i
                per_chan_recv[c].append(v)
            elif kind == 'cr':
                close_ret[int(e[2][1:])] = i
            elif kind == 'sa':
                c = int(e[2][1:])
                if e[4] == 'accepted' and c in close_ret:
                    self.problems.append(('send-after-close', 'send of %s on c%d was accepted although close had returned' % (e[3], c)))
                elif e[4] == 'accepted':
                    value_chan[int(e[3])] = c
                    sent_call[int(e[3])] = i
                    sent_ret[int(e[3])] = i
            elif kind == 'ln':
                c, n, cap = int(e[2][1:]), int(e[3]), int(e[4])
                want_cap = caps[c] if caps[c] else 1
                if cap != want_cap:
                    self.problems.append(('capacity', 'c%d reports capacity %d, created with %d' % (c, cap, want_cap)))
                if n > want_cap:
                    self.problems.append(('capacity', 'c%d holds %d values, capacity %d' % (c, n, want_cap)))
                # cross-check with the history: values accepted and not yet received
                acc = sum(1 for v in per_chan_sendcall[c] if (v in sent_ret or caps[c] == 0) and v not in recv_ret)
        # per channel rules
        for c in range(nchan):
            got = [v for v in per_chan_recv[c] if v is not None]
            # rule 3: order. Values of one sender must arrive in that sender's order, and if send(a) returned
            # before send(b) was called then a is not received after b.
            pos = {v: k for k, v in enumerate(got)}
            for a in got:
                for b in got:
                    if a == b:
                        continue
                    if pos[a] > pos[b]:
                        same_sender = a // 1000 == b // 1000 and a < b
                        happened_before = a in sent_ret and b in sent_call and sent_ret[a] < sent_call[b]
                        if same_sender or happened_before:
                            self.problems.append(('reorder', 'c%d delivered %d before %d although %d was sent first' % (
                                c, b, a, a)))
            # buffered values are delivered in acceptance order too (FIFO of the queue): for a single
            # writer the acceptance order is the call order
            # rule 2 (loss): a value whose send returned on a buffered channel, followed by a LATER
            # accepted value being received, must itself have been received (FIFO: no overtaking)
            for a in per_chan_sendcall[c]:
                if a in recv_ret:
                    continue
                later_received = [b for b in got if b in sent_call and a in sent_ret and
                                  sent_call[b] > sent_ret[a]]
                if later_received and caps[c] != 0:
                    self.problems.append(('lost', 'c%d accepted %d (send returned) but delivered later value %d and '
                                                  'never %d' % (c, a, later_received[0], a)))
            # rule 4: capacity on buffered channels: sends returned minus receives returned never exceeds cap
            if caps[c] != 0:
                occ = 0
                for i, e in enumerate(self.events):
                    if e[1] == 'sr' and int(e[2][1:]) == c:
                        occ += 1
                    elif e[1] == 'rr' and int(e[2][1:]) == c and e[3] != 'nil':
                        occ -= 1
                    if occ > caps[c]:
                        self.problems.append(('capacity', 'c%d: %d sends completed beyond receives, capacity %d' % (
                            c, occ, caps[c])))
                        break
            # rule 6: close. After a nil (closed and drained) no value is delivered; values sent before the close
            # are delivered before any nil
            seq = per_chan_recv[c]
            if None in seq:
                first_nil = seq.index(None)
                if any(v is not None for v in seq[first_nil:]):
                    self.problems.append(('close-order', 'c%d delivered a value after yielding nil' % c))
        return self.problems

    def closed_called_before(self, c, i):
        for e in self.events[:i]:
            if e[1] == 'cc' and int(e[2][1:]) == c:
                return True
        return False

    # -- deadlock justification ----------------------------------------------
    def pending_ops(self):
        """last call event without a matching return, per fiber"""
        pend = {}
        for e in self.events:
            who, kind = e[0], e[1]
            if kind in ('sc', 'rc', 'jc'):
                pend[who] = e
            elif kind in ('sr', 'rr', 'jr'):
                pend.pop(who, None)
        return pend

    def justify_deadlock(self):
        """When the VM reported a deadlock: every fiber that exists must be
        finished or parked in an operation that is disabled given the channel
        contents reconstructed from the history. Returns list of reasons the
        deadlock is NOT justified."""
        net = self.net
        caps = net['chans']
        started = {'main'}
        ended = set()
        launched = set()
        contents = {c: [] for c in range(len(caps))}
        closed = set()
        done_signalled = set()
        joined = set()
        for e in self.events:
            who, kind = e[0], e[1]
            if kind == 'start':
                started.add(who)
            elif kind == 'end':
                ended.add(who)
            elif kind == 'la':
                launched.add(e[2])
            elif kind == 'sc':
                pass
            elif kind == 'rr' and e[3] != 'nil':
                c = int(e[2][1:])
                v = int(e[3])
                if v in contents[c]:
                    contents[c].remove(v)
            elif kind == 'cr' or kind == 'cc':
                closed.add(int(e[2][1:]))
            elif kind == 'jr':
                joined.add(e[2])
        # values accepted: a send call whose value has not been received is either queued or not yet accepted
        pend = self.pending_ops()
        accepted = {c: [] for c in range(len(caps))}
        recv = set()
        for e in self.events:
            if e[1] == 'rr' and e[3] != 'nil':
                recv.add(int(e[3]))
        for e in self.events:
            if e[1] == 'sr':
                c, v = int(e[2][1:]), int(e[3])
                if v not in recv:
                    accepted[c].append(v)
        reasons = []
        if 'main' in ended:
            reasons.append('main had already finished')
        for f in launched - started:
            reasons.append('%s was launched and never ran' % f)
        for who in started - ended:
            e = pend.get(who)
            if e is None:
                reasons.append('%s is not inside a channel operation' % who)
                continue
            kind = e[1]
            if kind == 'rc':
                c = int(e[2][1:])
                pending_senders = [p for p in pend.values() if p[1] == 'sc' and int(p[2][1:]) == c]
                if accepted[c]:
                    reasons.append('%s waits to receive from c%d which holds %r' % (who, c, accepted[c]))
                elif c in closed:
                    reasons.append('%s waits to receive from closed c%d' % (who, c))
                elif pending_senders:
                    reasons.append('%s waits to receive from c%d while %s is sending on it' % (
                        who, c, pending_senders[0][0]))
            elif kind == 'sc':
                c = int(e[2][1:])
                pending_receivers = [p for p in pend.values() if p[1] == 'rc' and int(p[2][1:]) == c]
                if int(e[3]) in recv:
                    reasons.append('%s waits in send on c%d although its value was taken' % (who, c))
                elif pending_receivers:
                    reasons.append('%s waits to send on c%d while %s is receiving from it' % (
                        who, c, pending_receivers[0][0]))
                elif caps[c] != 0 and len(accepted[c]) < caps[c]:
                    others = [p for p in pend.values() if p[1] == 'sc' and int(p[2][1:]) == c]
                    if len(accepted[c]) + len(others) - 1 < caps[c]:
                        reasons.append('%s waits to send on c%d which holds %d of %d' % (
                            who, c, len(accepted[c]), caps[c]))
            elif kind == 'jc':
                f = e[2]
                if f in ended:
                    reasons.append('%s waits to join %s which has finished' % (who, f))
        return reasons


def source(rng):
    """a network program for corpora that only need text"""
    kind = rng.choice(['sync2', 'two', 'multi'])
    if kind == 'sync2':
        net = gen_network(rng, 2, rng.randint(1, 3), rng.choice([4, 8, 14]), srsw=True, allow_close=False)
        net['chans'] = [0 for _ in net['chans']]
    elif kind == 'two':
        net = gen_network(rng, 2, rng.randint(1, 4), rng.choice([4, 8, 14]), srsw=True, allow_close=False)
    else:
        net = gen_network(rng, rng.randint(3, 5), rng.randint(1, 3), 8, srsw=True, allow_close=False)
    if rng.random() < 0.6:
        net['payload'] = 'heap'
    return to_source(net)


# ---------------------------------------------------------------------------
# structured networks: common concurrency idioms with random sizes/capacities


def gen_pool(rng):
    """workers share a jobs channel; some workers launch a helper that feeds it; main feeds and collects"""
    k = rng.randint(2, 4)
    chans = [rng.choice([1, 2, 2, 3]), rng.choice([1, 2, 3])]      # jobs, done
    JOBS, DONE = 0, 1
    fibers = [[]]
    helpers = []
    per_worker = []
    for w in range(1, k + 1):
        fibers.append([])
    total_jobs_needed = 0
    helper_jobs = 0
    for w in range(1, k + 1):
        ops = []
        n = rng.randint(1, 2)
        if rng.random() < 0.5:
            h = len(fibers)
            fibers.append([('send', JOBS, h * 1000 + 1)])
            helpers.append(h)
            ops.append(('launch', h))
            helper_jobs += 1
        for j in range(n):
            ops.append(('recv', JOBS))
            ops.append(('send', DONE, w * 1000 + j + 1))
        total_jobs_needed += n
        per_worker.append(n)
        fibers[w] = ops
    main = []
    order = list(range(1, k + 1))
    rng.shuffle(order)
    for w in order:
        main.append(('launch', w))
    to_send = max(0, total_jobs_needed - helper_jobs + rng.choice([0, 0, 0, -1, 1]))
    to_recv = total_jobs_needed if rng.random() < 0.8 else max(0, total_jobs_needed - 1)
    seq = ['s'] * to_send + ['r'] * to_recv
    # receives tend to come first so main sleeps on done while workers sleep on jobs
    rng.shuffle(seq)
    if rng.random() < 0.5:
        seq.sort(key=lambda x: 0 if x == 'r' and rng.random() < 0.5 else 1)
    c = 0
    for x in seq:
        if x == 's':
            c += 1
            main.append(('send', JOBS, c))
        else:
            main.append(('recv', DONE))
    fibers[0] = main
    return {'chans': chans, 'fibers': fibers, 'srsw': False}


def gen_pipeline(rng):
    """stage i receives from c[i-1] and sends to c[i]; main feeds c[0] and drains c[K]"""
    k = rng.randint(1, 4)
    n = rng.randint(1, 4)
    chans = [rng.choice([0, 1, 2]) for _ in range(k + 1)]
    fibers = [[]]
    for s in range(1, k + 1):
        ops = []
        for j in range(n):
            ops.append(('recv', s - 1))
            ops.append(('send', s, s * 1000 + j + 1))
        fibers.append(ops)
    main = []
    stages = list(range(1, k + 1))
    if rng.random() < 0.5:
        rng.shuffle(stages)
    nested = rng.random() < 0.3 and k >= 2
    if nested:
        # each stage launches the next one
        for s in range(1, k):
            fibers[s].insert(rng.randint(0, 1), ('launch', s + 1))
        main.append(('launch', 1))
    else:
        for s in stages:
            main.append(('launch', s))
    seq = []
    sent = recvd = 0
    while sent < n or recvd < n:
        if sent < n and (recvd >= sent or rng.random() < 0.6):
            sent += 1
            seq.append(('send', 0, sent))
        elif recvd < n:
            recvd += 1
            seq.append(('recv', k))
    if rng.random() < 0.15:
        seq.append(('recv', k))          # one receive too many: a real deadlock
    main += seq
    for s in range(1, k + 1):
        if rng.random() < 0.5 and not nested:
            main.append(('join', s))
    fibers[0] = main
    return {'chans': chans, 'fibers': fibers, 'srsw': True}


def gen_nested(rng):
    """parents wait for values produced by children they launched, several levels deep"""
    depth = rng.randint(2, 4)
    chans = [rng.choice([0, 1, 1, 2]) for _ in range(depth)]
    fibers = [[] for _ in range(depth + 1)]
    for lvl in range(1, depth + 1):
        ops = []
        if lvl < depth:
            ops.append(('launch', lvl + 1))
            for _ in range(rng.randint(1, 2)):
                ops.append(('recv', lvl))
        for j in range(rng.randint(1, 2)):
            ops.append(('send', lvl - 1, lvl * 1000 + j + 1))
        if lvl < depth and rng.random() < 0.3:
            ops.append(('recv', lvl))
        fibers[lvl] = ops
    # make sends/receives per channel balance most of the time
    for c in range(depth):
        sends = sum(1 for op in fibers[c + 1] if op[0] == 'send' and op[1] == c)
        recvs = sum(1 for op in fibers[c] if op[0] == 'recv' and op[1] == c) if c > 0 else 0
        if c == 0:
            fibers[0] = [('launch', 1)] + [('recv', 0)] * (sends if rng.random() < 0.85 else sends + 1)
    if rng.random() < 0.4:
        fibers[0].append(('join', 1))
    return {'chans': chans, 'fibers': fibers, 'srsw': True}
