"""C16 workload (1): the native exerciser. The table of natives is derived at
check time by scanning NativeMetaBuilder declarations in /repo/laythe_lib, so
a new native is picked up (or reported as uncovered)."""
import os
import random
import re

LIB = '/repo/laythe_lib/src'
DECL = re.compile(r'NativeMetaBuilder::(method|fun)\(\s*("([^"]*)"|[A-Z_]+)\s*,\s*Arity::(\w+)\(([^)]*)\)')

CLASS_OF_FILE = {'number': 'Number', 'string': 'String', 'list': 'List', 'map': 'Map', 'tuple': 'Tuple', 'iter': 'Iter',
                 'object': 'Object', 'bool': 'Bool', 'nil': 'Nil', 'closure': 'Closure', 'fun': 'Fun',
                 'method': 'Method', 'native': 'Native', 'class': 'Class', 'channel': 'Channel', 'error': 'Error',
                 'module': 'Module'}

RECEIVERS = {
    'Number': ['3', '0.5', '(0/0)', '(1/0)', '(-2)'],
    'String': ['"abc"', '""', '"héé😀"'],
    'List': ['[1, 2, 3]', '[]', '[[1], "a", nil]'],
    'Map': ['{"k": 1}', '{}', '{1: 2, "a": [1]}'],
    'Tuple': ['(1, 2)', '()'],
    'Iter': ['[1, 2].iter()', 'z_ite', '"ab".iter()', '3.times()', '{"k": 1}.iter()', '[1, 2].iter().map(z_f1)',
             '[3, 4].iter().zip([1].iter())'],
    'Bool': ['true', 'false'],
    'Nil': ['nil'],
    'Closure': ['z_f1', 'z_cap'],
    'Fun': ['z_fun'],
    'Method': ['z_bm', 'z_inst.m'],
    'Native': ['print', 'z_nat'],
    'Class': ['Inst', 'List', 'Error', 'Object'],
    'Channel': ['chan(2)', 'chan()', 'z_chc'],
    'Error': ['Error("m")', 'z_err'],
    'Object': ['z_inst', '1', '"s"', 'nil', '[1]', 'Inst', 'z_f1'],
    'Module': [],
    'RegExp': ['RegExp("a+")', 'RegExp("(\\\\d+)-(\\\\d+)")'],
}

STATIC_RECEIVER = {'Number': 'Number', 'List': 'List', 'Tuple': 'Tuple', 'Iter': 'Iter', 'String': 'String', 'Map': 'Map'}

ZOO = ['nil', 'true', 'false', '0', '-0', '1', '-1', '0.5', '(0/0)', '(1/0)', '(-1/0)', '9007199254740992', '255',
       '""', '"a"', '"héé"', '"a,b"', '[]', '[1]', '[[1, 2], [3]]', '(1, 2)', '()', '{"k": 1}', '{}',
       'z_inst', 'z_cls', 'z_f0', 'z_f1', 'z_f2', 'z_bm', 'z_nat', 'z_ch', 'z_chc', 'z_it', 'z_ite', 'z_err', 'z_raise']

PRELUDE = '''class Inst { init() { self.a = 1; } m() { 1 } str() { "inst" } }
let z_inst = Inst();
let z_cls = Inst;
let z_f0 = || 1;
let z_f1 = |a| a;
let z_f2 = |a, b| a;
fn z_fun(a) { return a; }
let z_capv = 5;
fn z_mkcap() { let c = z_capv; return |a| a + c; }
let z_cap = z_mkcap();
let z_raise = |a| { raise Error("cb"); };
let z_bm = [1].push;
let z_nat = print;
let z_ch = chan(2);
let z_chc = chan(1);
z_chc.close();
let z_it = [1, 2].iter();
let z_ite = [].iter();
z_ite.next();
let z_err = Error("zoo");
'''

MODULE_IMPORTS = {
    'math': ('import std.math;\n', 'math'),
    'regexp': ('import std.regexp:{RegExp};\n', None),
    'fs': ('import std.io.fs;\n', 'fs'),
    'stdio': ('import std.io.stdio:{stdout, stderr, stdin};\n', None),
    'env': ('import std.env;\n', 'env'),
}


def scan():
    """returns (natives, uncovered). native = dict(cls, name, kind, lo, hi, imports, receivers)"""
    natives = []
    uncovered = []
    for root, dirs, files in os.walk(LIB):
        for f in sorted(files):
            if not f.endswith('.rs'):
                continue
            path = os.path.join(root, f)
            rel = os.path.relpath(path, LIB)
            text = open(path).read()
            # drop test modules
            cut = text.find('#[cfg(test)]')
            if cut >= 0:
                text = text[:cut]
            for m in DECL.finditer(text):
                kind = m.group(1)
                name = m.group(3)
                if name is None:
                    const = m.group(2)
                    name = {'INDEX_GET': '[]', 'INDEX_SET': '[]='}.get(const)
                    if name is None:
                        uncovered.append('%s:%s' % (rel, const))
                        continue
                ar = m.group(4)
                nums = [int(x) for x in re.findall(r'\d+', m.group(5))]
                if ar == 'Fixed':
                    lo, hi = nums[0], nums[0]
                elif ar == 'Default':
                    lo, hi = nums[0], nums[1]
                else:
                    lo, hi = nums[0], nums[0] + 3
                stem = os.path.splitext(f)[0]
                entry = {'name': name, 'kind': kind, 'lo': lo, 'hi': hi, 'file': rel, 'imports': '', 'cls': None}
                if rel.startswith('global/primitives/'):
                    cls = CLASS_OF_FILE.get(stem)
                    if cls is None:
                        uncovered.append('%s:%s' % (rel, name))
                        continue
                    entry['cls'] = cls
                    if kind == 'fun':
                        entry['receivers'] = [cls]
                    else:
                        entry['receivers'] = RECEIVERS.get(cls, [])
                elif rel.startswith('global/'):
                    if name in ('test',):
                        continue
                    entry['cls'] = 'global'
                    entry['receivers'] = [None]
                elif rel.startswith('math/'):
                    entry['cls'] = 'math'
                    entry['imports'] = MODULE_IMPORTS['math'][0]
                    entry['receivers'] = ['math']
                elif rel.startswith('regexp/'):
                    entry['cls'] = 'RegExp'
                    entry['imports'] = MODULE_IMPORTS['regexp'][0]
                    entry['receivers'] = RECEIVERS['RegExp'] if name != 'init' else ['RegExp']
                    if name == 'init':
                        entry['name'] = None      # constructor: RegExp(args)
                elif rel.startswith('io/fs/'):
                    entry['cls'] = 'fs'
                    entry['imports'] = MODULE_IMPORTS['fs'][0]
                    entry['receivers'] = ['fs']
                elif rel.startswith('io/stdio/'):
                    entry['cls'] = stem
                    entry['imports'] = MODULE_IMPORTS['stdio'][0]
                    entry['receivers'] = [stem]
                elif rel.startswith('env/'):
                    entry['cls'] = 'env'
                    entry['imports'] = MODULE_IMPORTS['env'][0]
                    entry['receivers'] = ['env']
                else:
                    if 'support' in rel:
                        continue
                    uncovered.append('%s:%s' % (rel, name))
                    continue
                if not entry['receivers']:
                    uncovered.append('%s:%s (no receiver)' % (rel, name))
                    continue
                natives.append(entry)
    return natives, uncovered


def call_text(nat, recv, args, form):
    name = nat['name']
    a = ', '.join(args)
    if nat['cls'] == 'global':
        target = name
    elif name is None:
        target = recv
    elif name == '[]':
        return '(%s)[%s]' % (recv, args[0] if args else 'nil')
    elif name == '[]=':
        if len(args) >= 2:
            return '(%s)[%s] = %s' % (recv, args[1], args[0])
        return '(%s)[%s] = 1' % (recv, args[0] if args else 'nil')
    else:
        target = '(%s).%s' % (recv, name)
    if form == 'call':
        return '%s(%s)' % (target, a)
    if form == 'value':
        return '(|| { let b__ = %s; return b__(%s); })()' % (target, a)
    if form == 'dotcall':
        return '(%s).call(%s)' % (target, a)
    if form == 'callback':
        return '[%s].iter().map(%s).list()' % (a if args else 'nil', target)
    return '%s(%s)' % (target, a)


def cases(rng, per_native, forms=('call', 'call', 'call', 'value', 'dotcall', 'callback')):
    natives, uncovered = scan()
    out = []
    for nat in natives:
        for _ in range(per_native):
            recv = rng.choice(nat['receivers'])
            n = rng.randint(max(0, nat['lo'] - 1), nat['hi'] + 1)
            if rng.random() < 0.7:
                n = rng.randint(nat['lo'], nat['hi'])
            args = [rng.choice(ZOO) for _ in range(n)]
            form = rng.choice(forms)
            if nat['name'] in ('[]', '[]=') or nat['name'] is None:
                form = 'call'
            call = call_text(nat, recv if recv is not None else '', args, form)
            label = '%s.%s/%d(%s) recv=%s form=%s' % (nat['cls'], nat['name'], n, ','.join(args), recv, form)
            text = (nat['imports'] + PRELUDE +
                    'try {\n  let r__ = %s;\n  print("returned");\n} catch e__: Error {\n  print("raised");\n}\nprint("end");\n' % call)
            out.append({'label': label, 'native': '%s.%s' % (nat['cls'], nat['name']), 'text': text})
    return out, natives, uncovered
