"""C02 generator: scope skeletons. Every variable holds a unique integer so a
read through the wrong cell is identified, not merely detected."""
import random
import zlib
from lyast import *


class ScopeGen:
    def __init__(self, rng, max_depth=4):
        self.rng = rng
        self.max_depth = max_depth
        self.n = 0
        self.u = 100
        self.budget = 70
        self.tags = set()

    def name(self, p):
        self.n += 1
        return '%s%d' % (p, self.n)

    def uniq(self):
        self.u += self.rng.choice([1, 3, 7, 11])
        return self.u

    def body(self, depth, vars_, funs, in_fn, loop=False):
        """vars_: list of visible variable names; funs: visible zero-arg closures.
        Returns statements. Lists are copied on entry to nested scopes."""
        r = self.rng
        vars_ = list(vars_)
        funs = list(funs)
        out = []
        n = r.randint(2, 6)
        for _ in range(n):
            if self.budget <= 0:
                break
            self.budget -= 1
            c = r.random()
            if c < 0.16 or not vars_:
                v = self.name('v')
                out.append(Let(v, Num(self.uniq())))
                vars_.append(v)
            elif c < 0.30:
                v = r.choice(vars_)
                out.append(Print([Str('r ' + v), Var(v)]))
            elif c < 0.42:
                v = r.choice(vars_)
                if r.random() < 0.5:
                    out.append(ExprS(Assign(Var(v), Num(self.uniq()))))
                else:
                    out.append(ExprS(OpAssign(Var(v), '+', Num(r.choice([1, 2, 5])))))
            elif c < 0.62 and depth < self.max_depth:
                out.extend(self.closure(depth, vars_, funs))
            elif c < 0.74 and funs:
                f = r.choice(funs)
                out.append(Print([Str('c ' + f), Call(Var(f), [])]))
            elif c < 0.80 and funs:
                out.append(ExprS(Call(Prop(Var('keep'), 'push'), [Var(r.choice(funs))])))
            elif c < 0.88 and depth < self.max_depth:
                out.extend(self.loop(depth, vars_, funs, in_fn))
            elif c < 0.93 and depth < self.max_depth:
                out.extend(self.trycatch(depth, vars_, funs, in_fn))
            elif c < 0.97 and depth < self.max_depth:
                out.extend(self.factory(depth, vars_, funs))
            elif vars_ and depth < self.max_depth:
                out.extend(self.shadow(depth, vars_, funs, in_fn))
        return out, vars_, funs

    def closure_body(self, depth, vars_, funs):
        """statements of a zero-arg closure returning a number"""
        r = self.rng
        stmts, v2, f2 = self.body(depth + 1, vars_, funs, True)
        ret = Var(r.choice(v2)) if v2 else Num(self.uniq())
        if r.random() < 0.3 and v2:
            ret = Bin('+', Var(r.choice(v2)), Var(r.choice(v2)))
        return stmts, ret

    def closure(self, depth, vars_, funs):
        r = self.rng
        f = self.name('f')
        form = r.choice(['lambda_expr', 'lambda_block', 'fn', 'fn_implicit'])
        self.tags.add('closure:' + form)
        if form == 'lambda_expr' and vars_:
            v = r.choice(vars_)
            e = r.choice([Var(v), Assign(Var(v), Bin('+', Var(v), Num(1))), Bin('+', Var(v), Num(1000))])
            out = [Let(f, Lambda([], e, True))]
        else:
            stmts, ret = self.closure_body(depth, vars_, funs)
            pre = []
            # own random stream (seeded from the generator state without consuming it), so that adding this family
            # left the rest of every generated program exactly as it was
            r = random.Random('sole:%d:%s' % (zlib.crc32(repr(self.rng.getstate()[1][:16]).encode()), f))
            if r.random() < 0.35:
                # a fresh variable of the enclosing scope whose ONLY mention anywhere is one syntactic position
                # inside this nested function: capture analysis has to visit that position or the variable is
                # never boxed (map key/value, list/tuple element, index, interpolation, ternary arm/condition,
                # and/or operand, unary operand, call argument, a lambda nested once more)
                w = self.name('w')
                self.u += r.choice([1, 3, 7, 11])
                wv = self.u
                self.u += r.choice([1, 3, 7, 11])
                u = self.u
                pre = [Let(w, Num(wv))]
                pos = r.choice(['mapkey', 'mapval', 'list', 'tuple', 'index', 'interp', 'tern_arm', 'tern_cond', 'or',
                                'and', 'neg', 'arg', 'nested', 'mapkey', 'mapval'])
                self.tags.add('sole_mention:' + pos)
                e = {
                    'mapkey': lambda: Index(MapLit([(Var(w), Num(u))]), Num(wv)),
                    'mapval': lambda: Index(MapLit([(Num(1), Var(w))]), Num(1)),
                    'list': lambda: Index(ListLit([Num(0), Var(w)]), Num(1)),
                    'tuple': lambda: Index(TupleLit([Var(w), Num(0)]), Num(0)),
                    'index': lambda: Index(ListLit([Num(u), Num(u + 1)]), Bin('-', Var(w), Num(wv))),
                    'interp': lambda: Call(Prop(Interp(['<', Var(w), '>']), 'len'), []),
                    'tern_arm': lambda: Tern(Bool(False), Num(0), Var(w)),
                    'tern_cond': lambda: Tern(Bin('>', Var(w), Num(-1)), Num(u), Num(0)),
                    'or': lambda: Or(Nil(), Var(w)),
                    'and': lambda: And(Bool(True), Var(w)),
                    'neg': lambda: Un('-', Var(w)),
                    'arg': lambda: Call(Prop(ListLit([Var(w)]), 'len'), []),
                    'nested': lambda: Call(Group(Lambda([], Var(w), True)), []),
                }[pos]()
                ret = Bin('+', ret, Group(e))
            if form == 'fn':
                out = [Fn(f, [], stmts + [Return(ret)])]
            elif form == 'fn_implicit':
                out = [Fn(f, [], stmts + [Implicit(ret)])]
            else:
                out = [Let(f, Lambda([], stmts + [Return(ret)], False))]
            out = pre + out
        funs.append(f)
        return out

    def loop(self, depth, vars_, funs, in_fn):
        r = self.rng
        out = []
        self.tags.add('loop')
        if r.random() < 0.6:
            x = self.name('x')
            fs = self.name('fs')
            out.append(Let(fs, ListLit([])))
            inner_vars = vars_ + [x]
            b = self.name('b')
            body = [Let(b, Bin('*', Var(x), Num(10)))]
            # closures made in the loop body: the item variable is shared, the body local is fresh
            body.append(ExprS(Call(Prop(Var(fs), 'push'), [Lambda([], Bin('+', Var(x), Var(b)), True)])))
            if r.random() < 0.5:
                body.append(ExprS(Call(Prop(Var(fs), 'push'),
                                       [Lambda([], [ExprS(OpAssign(Var(b), '+', Num(1))), Return(Var(b))], False)])))
            extra, _, _ = self.body(depth + 1, inner_vars + [b], funs, in_fn, loop=True)
            body.extend(extra)
            src = Call(Prop(Num(r.randint(1, 3)), 'times'), []) if r.random() < 0.5 else \
                ListLit([Num(self.uniq()) for _ in range(r.randint(1, 3))])
            out.append(For(x, src, body))
            k = self.name('k')
            out.append(For(k, Var(fs), [Print([Str('l ' + fs), Call(Var(k), [])])]))
            if r.random() < 0.5:
                out.append(For(k, Var(fs), [Print([Str('l2 ' + fs), Call(Var(k), [])])]))
        else:
            i = self.name('i')
            fs = self.name('fs')
            out.append(Let(fs, ListLit([])))
            out.append(Let(i, Num(0)))
            w = self.name('w')
            body = [ExprS(OpAssign(Var(i), '+', Num(1))), Let(w, Bin('*', Var(i), Num(100))),
                    ExprS(Call(Prop(Var(fs), 'push'), [Lambda([], Bin('+', Var(w), Var(i)), True)]))]
            out.append(While(Bin('<', Var(i), Num(r.randint(1, 3))), body))
            k = self.name('k')
            out.append(For(k, Var(fs), [Print([Str('w ' + fs), Call(Var(k), [])])]))
        return out

    def trycatch(self, depth, vars_, funs, in_fn):
        r = self.rng
        self.tags.add('catchvar')
        e = self.name('e')
        g = self.name('g')
        msg = 'm%d' % self.uniq()
        body, _, _ = self.body(depth + 1, vars_, funs, in_fn)
        out = [Let(g, Nil()),
               Try(body + [Raise(Call(Var('Error'), [Str(msg)]))],
                   [(e, 'Error', [ExprS(Assign(Var(g), Lambda([], Prop(Var(e), 'message'), True)))])]),
               Print([Str('e ' + g), Call(Var(g), [])])]
        return out

    def factory(self, depth, vars_, funs):
        """function whose activations own separate cells"""
        r = self.rng
        self.tags.add('factory')
        mk = self.name('mk')
        p = self.name('p')
        l = self.name('l')
        inner_stmts, ret = self.closure_body(depth + 1, vars_ + [p, l], funs)
        inc = Lambda([], inner_stmts + [ExprS(Assign(Var(l), Bin('+', Var(l), Var(p)))), Return(Var(l))], False)
        get = Lambda([], Var(l), True)
        out = [Fn(mk, [p], [Let(l, Num(self.uniq())), Return(ListLit([inc, get]))])]
        a, b = self.name('a'), self.name('b')
        out.append(Let(a, Call(Var(mk), [Num(r.randint(1, 9))])))
        out.append(Let(b, Call(Var(mk), [Num(r.randint(10, 19))])))
        seq = [(a, 0), (b, 0), (a, 0), (a, 1), (b, 1), (b, 0), (a, 1)]
        r.shuffle(seq)
        for who, which in seq[:r.randint(3, 7)]:
            out.append(Print([Str('k %s %d' % (who, which)), Call(Index(Var(who), Num(which)), [])]))
        if r.random() < 0.5:
            out.append(ExprS(Call(Prop(Var('keep'), 'push'), [Index(Var(a), Num(0))])))
        return out

    def shadow(self, depth, vars_, funs, in_fn):
        """an inner scope re-declares an outer name; closures made before and
        after must keep their own declaration"""
        r = self.rng
        self.tags.add('shadow')
        v = r.choice(vars_)
        f1, f2 = self.name('f'), self.name('f')
        inner = [Let(f1, Lambda([], Var(v), True)),
                 Print([Str('s1 ' + v), Call(Var(f1), [])])]
        # a function body opens a scope in which the same name can be declared again
        body = [Let(v, Num(self.uniq())), Let(f2, Lambda([], Var(v), True)),
                ExprS(Assign(Var(v), Bin('+', Var(v), Num(1)))),
                Return(Bin('+', Call(Var(f2), []), Num(0)))]
        h = self.name('h')
        inner.append(Fn(h, [], body))
        inner.append(Print([Str('s2 ' + v), Call(Var(h), []), Call(Var(f1), []), Var(v)]))
        funs.append(f1)
        return inner


def class_part(g):
    """methods capture module names and self; lambdas inside methods capture self"""
    r = g.rng
    g.tags.add('self_capture')
    c = g.name('C')
    mv = g.name('mv')
    stmts = [Let(mv, Num(g.uniq())),
             Class(c, None, Fn('init', ['a'], [ExprS(Assign(Prop(Self(), 'n'), Var('a')))]),
                   [Fn('mk', [], [Return(Lambda([], [ExprS(Assign(Prop(Self(), 'n'), Bin('+', Prop(Self(), 'n'), Var(mv)))),
                                                     Return(Prop(Self(), 'n'))], False))]),
                    Fn('get', [], [Implicit(At('n'))]),
                    Fn('bump', [], [ExprS(Assign(Var(mv), Bin('+', Var(mv), Num(1)))), Return(Var(mv))])])]
    o1, o2 = g.name('o'), g.name('o')
    k1, k2 = g.name('k'), g.name('k')
    stmts += [Let(o1, Call(Var(c), [Num(g.uniq())])), Let(o2, Call(Var(c), [Num(g.uniq())])),
              Let(k1, Call(Prop(Var(o1), 'mk'), [])), Let(k2, Call(Prop(Var(o2), 'mk'), []))]
    seq = [Print([Str('m1'), Call(Var(k1), [])]), Print([Str('m2'), Call(Var(k2), [])]),
           Print([Str('g1'), Call(Prop(Var(o1), 'get'), [])]), Print([Str('b'), Call(Prop(Var(o2), 'bump'), [])]),
           Print([Str('m1'), Call(Var(k1), [])]), Print([Str('g2'), Call(Prop(Var(o2), 'get'), [])])]
    r.shuffle(seq)
    stmts += seq[:r.randint(3, 6)]
    stmts.append(ExprS(Call(Prop(Var('keep'), 'push'), [Var(k1)])))
    return stmts


def case(rng):
    g = ScopeGen(rng, max_depth=rng.choice([2, 3, 4, 5]))
    stmts = [Let('keep', ListLit([]))]
    body, vars_, funs = g.body(0, [], [], False)
    stmts += body
    if rng.random() < 0.4:
        stmts += class_part(g)
    pos = rng.choice(['module', 'module', 'fn', 'method', 'lambda'])
    tail = [For('k__', Var('keep'), [Print([Str('keep'), Call(Var('k__'), [])])]),
            For('k__', Var('keep'), [Print([Str('keep2'), Call(Var('k__'), [])])])]
    if pos != 'module':
        import gen_core
        stmts = gen_core.wrap_position(stmts + tail, pos)
    else:
        stmts = stmts + tail
    g.tags.add('pos:' + pos)
    return {'stmts': stmts, 'tags': g.tags, 'nontrivial': len(g.tags) >= 2}


def source(rng):
    import lyast
    return lyast.to_source(case(rng)['stmts'])
