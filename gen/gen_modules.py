"""C17 generator: acyclic module graphs written as file trees."""
import random
from lyast import *


def case(rng):
    r = rng
    n = r.randint(2, 7)
    # module keys: tuples of path segments; packages get their own module file
    mods = []
    pkgs = []
    for i in range(n):
        if pkgs and r.random() < 0.4:
            key = r.choice(pkgs) + ('m%d' % i,)
        elif r.random() < 0.3:
            # packages nest: p1/p3/m4.lay is imported as self.p1.p3.m4 and runs p1, p1.p3, p1.p3.m4 in that order
            parent = r.choice(pkgs) if pkgs and r.random() < 0.5 and len(pkgs[-1]) < 3 else ()
            pk = parent + ('p%d' % i,)
            pkgs.append(pk)
            mods.append({'key': pk, 'i': 1000 + i, 'pkg': True})
            key = pk + ('m%d' % i,)
        else:
            key = ('m%d' % i,)
        mods.append({'key': key, 'i': i, 'pkg': False})
    nested = [m for m in mods if len(m['key']) > 1]
    if nested and r.random() < 0.3:
        # a flat module whose name is the concatenation of a nested module's path segments
        twin = r.choice(nested)
        mods.insert(r.randint(0, len(mods)), {'key': (''.join(twin['key']),), 'i': 2000 + len(mods), 'pkg': False})
    # order = dependency order: a module may import only modules earlier in the list
    u = [0]

    def uniq():
        u[0] += 1
        return u[0]
    tags = set()
    files = {}
    asts = {}
    infos = []
    for idx, m in enumerate(mods):
        name = m['key'][-1]
        stmts = [Print([Str('enter ' + '.'.join(m['key']))])]
        info = {'key': m['key'], 'exports': {}, 'private': []}
        # imports of earlier non-package-parent modules
        cands = [x for x in infos]
        nimp = 0 if m['pkg'] else r.randint(0, min(2, len(cands)))
        for dep in r.sample(cands, nimp):
            form = r.choice(['whole', 'alias', 'symbols'])
            path = ['self'] + list(dep['key'])
            if form == 'whole':
                stmts.append(Import(path))
                ref = Var(dep['key'][-1])
            elif form == 'alias':
                al = 'imp%d' % uniq()
                stmts.append(Import(path, alias=al))
                ref = Var(al)
            else:
                syms = [s for s in dep['exports']]
                if not syms:
                    stmts.append(Import(path))
                    ref = Var(dep['key'][-1])
                else:
                    chosen = r.sample(syms, r.randint(1, min(2, len(syms))))
                    pairs = []
                    for s in chosen:
                        al = 's%d' % uniq()
                        pairs.append((s, al))
                        kind = dep['exports'][s]
                        if kind == 'let':
                            stmts.append(None)   # placeholder, filled after the import
                    stmts = [x for x in stmts if x is not None]
                    stmts.append(Import(path, symbols=pairs))
                    for s, al in pairs:
                        kind = dep['exports'][s]
                        if kind == 'let':
                            stmts.append(Print([Str('%s got %s' % (name, s)), Var(al)]))
                        elif kind == 'fn':
                            stmts.append(Print([Str('%s call %s' % (name, s)), Call(Var(al), [])]))
                        else:
                            stmts.append(Print([Str('%s new %s' % (name, s)), Call(Prop(Call(Var(al), []), 'tag'), [])]))
                    tags.add('form:symbols')
                    ref = None
            if ref is not None:
                tags.add('form:' + form)
                for s, kind in list(dep['exports'].items())[:3]:
                    if kind == 'let':
                        stmts.append(Print([Str('%s sees %s' % (name, s)), Prop(ref, s)]))
                    elif kind == 'fn':
                        stmts.append(Print([Str('%s calls %s' % (name, s)), Call(Prop(ref, s), [])]))
                    else:
                        stmts.append(Print([Str('%s makes %s' % (name, s)), Call(Prop(Call(Prop(ref, s), []), 'tag'), [])]))
        # private state and exports
        priv = 'priv_%s' % name
        stmts.append(Let(priv, Num(uniq() * 10)))
        info['private'].append(priv)
        for k in range(r.randint(1, 4)):
            kind = r.choice(['let', 'fn', 'fn', 'class'])
            sym = '%s_%s%d' % (name, kind[0], k)
            exported = r.random() < 0.75
            lets_here = [x for x, kk in info['exports'].items() if kk == 'let']
            if kind == 'let':
                d = Let(sym, Num(uniq()))
            elif kind == 'fn' and lets_here and r.random() < 0.4:
                # reassigns one of the module's own exported variables: imports made afterwards see the new value,
                # module objects handed out earlier keep the value they were built with
                tgt = r.choice(lets_here)
                d = Fn(sym, [], [ExprS(Assign(Var(tgt), Bin('+', Var(tgt), Num(100)))), Return(Var(tgt))])
                tags.add('export:fn_reassigns_export')
            elif kind == 'fn':
                # reads and modifies private state: visible only through the export
                d = Fn(sym, [], [ExprS(Assign(Var(priv), Bin('+', Var(priv), Num(1)))), Return(Var(priv))])
            else:
                d = Class(sym, None, None, [Fn('tag', [], [Return(Bin('+', Str(sym + ':'), Interp([Var(priv)])))])])
            stmts.append(Export(d) if exported else d)
            if exported:
                info['exports'][sym] = kind
                tags.add('export:' + kind)
            else:
                info.setdefault('hidden', []).append(sym)
        stmts.append(Print([Str('exit ' + '.'.join(m['key']))]))
        infos.append(info)
        asts[m['key']] = stmts
    # main: imports in random order, multiplicity and form
    main = [Print([Str('main start')])]
    aliases = {}
    order = [x for x in infos if True]
    seq = [r.choice(order) for _ in range(r.randint(2, 8))]
    for dep in seq:
        path = ['self'] + list(dep['key'])
        al = 'M%d' % uniq()
        syms = list(dep['exports'].items())
        if syms and r.random() < 0.35:
            pairs = [(s, 'x%d' % uniq()) for s, _ in r.sample(syms, r.randint(1, min(3, len(syms))))]
            main.append(Import(path, symbols=pairs))
            for s, a2 in pairs:
                kind = dep['exports'][s]
                if kind == 'let':
                    main.append(Print([Str('main got ' + s), Var(a2)]))
                elif kind == 'fn':
                    main.append(Print([Str('main call ' + s), Call(Var(a2), []), Call(Var(a2), [])]))
                else:
                    main.append(Print([Str('main new ' + s), Call(Prop(Call(Var(a2), []), 'tag'), [])]))
            tags.add('main:symbols')
        else:
            main.append(Import(path, alias=al))
            earlier = aliases.setdefault(dep['key'], [])
            for s, kind in syms:
                if kind == 'let' and r.random() < 0.3:
                    # a write to this import's module object, then what every object of the same module shows
                    main.append(ExprS(Assign(Prop(Var(al), s), Num(uniq() * 1000))))
                    main.append(Print([Str('main wrote ' + s)] + [Prop(Var(a0), s) for a0 in earlier + [al]]))
                    tags.add('main:module_field_write')
            earlier.append(al)
            for s, kind in syms:
                if kind == 'let':
                    main.append(Print([Str('main sees ' + s)] + [Prop(Var(a0), s) for a0 in earlier]))
                elif kind == 'fn':
                    main.append(Print([Str('main calls ' + s), Call(Prop(Var(al), s), [])]))
                else:
                    main.append(Print([Str('main makes ' + s), Call(Prop(Call(Prop(Var(al), s), []), 'tag'), [])]))
            tags.add('main:alias')
    main.append(Print([Str('main end')]))
    # optionally end with an import error (uncaught: imports cannot sit in try)
    c = r.random()
    if c < 0.2:
        main.append(Import(['self', 'does_not_exist%d' % uniq()]))
        tags.add('err:missing_module')
    elif c < 0.4:
        dep = r.choice(infos)
        hidden = dep.get('hidden') or ['never_declared']
        main.append(Import(['self'] + list(dep['key']), symbols=[(r.choice(hidden), None)]))
        tags.add('err:not_exported')
    elif c < 0.5:
        dep = r.choice(infos)
        hidden = dep.get('hidden') or dep['private']
        al = 'M%d' % uniq()
        main.append(Import(['self'] + list(dep['key']), alias=al))
        main.append(Print([Str('leak'), Prop(Var(al), r.choice(hidden))]))
        tags.add('err:private_access')
    return {'main': main, 'modules': asts, 'tags': tags}
