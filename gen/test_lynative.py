#!/usr/bin/env python3
"""Differential tester for lynative.py: every probe is a small Laythe program
built as an AST, printed with lyast, run on the real VM (lyrun) and on the
reference model (lyref + lynative); stdout lines and the terminal error class
must agree.  Exit status 1 on any mismatch.

    python3 test_lynative.py            # run everything
    python3 test_lynative.py -k sort    # only probes whose name contains 'sort'
    python3 test_lynative.py -v         # list every probe
    python3 test_lynative.py -s         # print whole programs for failures
    python3 test_lynative.py --fuzz 3000 --seed 7   # only random iterator pipelines
"""
import concurrent.futures
import os
import random
import re
import subprocess
import sys
import tempfile

sys.path.insert(0, os.path.dirname(os.path.abspath(__file__)))
import lyast as A          # noqa: E402
import lyref               # noqa: E402
import lynative            # noqa: E402

# LYRUN=/path/to/lyrun selects another build of the VM (useful while the shared
# binary is being rebuilt by other jobs)
LYRUN = os.environ.get('LYRUN', '/verif/target/dbg/debug/lyrun')
NAN = float('nan')
INF = float('inf')

ERROR_CLASSES = ['TypeError', 'FormatError', 'ValueError', 'IndexError', 'KeyError', 'PropertyError',
                 'MethodNotFoundError', 'ImportError', 'RuntimeError']


# ---------------------------------------------------------------------------
# a small expression DSL over lyast


class E:
    def __init__(self, n):
        object.__setattr__(self, 'n', n)

    def _recv(self):
        # lyast prints Prop(Lambda) as `|x| x.len()`, which parses as a lambda
        # whose body is `x.len()`: parenthesize lambda receivers here
        return A.Group(self.n) if self.n.k == 'lambda' else self.n

    def __getattr__(self, name):
        if name.startswith('__'):
            raise AttributeError(name)
        return E(A.Prop(self._recv(), name))

    def m(self, name):
        return E(A.Prop(self._recv(), name))

    def __call__(self, *args):
        return E(A.Call(self._recv(), [lift(a) for a in args]))

    def __getitem__(self, i):
        return E(A.Index(self._recv(), lift(i)))

    def _bin(op):
        return lambda self, o: E(A.Bin(op, self.n, lift(o)))

    def _rbin(op):
        return lambda self, o: E(A.Bin(op, lift(o), self.n))
    __add__ = _bin('+')
    __sub__ = _bin('-')
    __mul__ = _bin('*')
    __truediv__ = _bin('/')
    __lt__ = _bin('<')
    __le__ = _bin('<=')
    __gt__ = _bin('>')
    __ge__ = _bin('>=')
    __radd__ = _rbin('+')
    __rsub__ = _rbin('-')
    __rmul__ = _rbin('*')

    def __neg__(self):
        return E(A.Un('-', self.n))


def lift(x):
    if isinstance(x, E):
        return x.n
    if isinstance(x, A.N):
        return x
    if x is None:
        return A.Nil()
    if isinstance(x, bool):
        return A.Bool(x)
    if isinstance(x, (int, float)):
        return A.Num(x)
    if isinstance(x, str):
        return A.Str(x)
    if isinstance(x, list):
        return A.ListLit([lift(i) for i in x])
    if isinstance(x, tuple):
        return A.TupleLit([lift(i) for i in x])
    if isinstance(x, dict):
        return A.MapLit([(lift(k), lift(v)) for k, v in x.items()])
    raise TypeError(x)


def X(x):
    return E(lift(x))


def L(*items):
    return E(A.ListLit([lift(i) for i in items]))


def T(*items):
    return E(A.TupleLit([lift(i) for i in items]))


def M(pairs=()):
    if isinstance(pairs, dict):
        pairs = list(pairs.items())
    return E(A.MapLit([(lift(k), lift(v)) for k, v in pairs]))


def V(name):
    return E(A.Var(name))


def eq(a, b):
    return E(A.Bin('==', lift(a), lift(b)))


def no(a):
    return E(A.Un('!', lift(a)))


def lam(params, body):
    """|params| expr"""
    if isinstance(params, str):
        params = params.split()
    return E(A.Lambda(params, lift(body), True))


def blk(params, *stmts):
    """|params| { stmts }"""
    if isinstance(params, str):
        params = params.split()
    return E(A.Lambda(params, [st(s) for s in stmts], False))


def st(s):
    if isinstance(s, E):
        return A.ExprS(s.n)
    return s


def let(name, v=None):
    return A.Let(name, lift(v))


def pr(*args):
    return A.Print([lift(a) for a in args])


def ret(v):
    return A.Return(lift(v))


def fn(name, params, *stmts):
    if isinstance(params, str):
        params = params.split()
    return A.Fn(name, params, [st(s) for s in stmts])


def rz(cls, msg):
    return A.Raise(A.Call(A.Var(cls), [lift(msg)]))


def assign(target, v):
    return A.ExprS(A.Assign(lift(target), lift(v)))


def ife(cond, then, els=None):
    return A.If(lift(cond), [st(s) for s in then], None, [st(s) for s in els] if els is not None else None)


def guarded(stmts):
    """try { stmts } catch e: <each class> { print("!<class>", e.message?) }"""
    catches = [('e', c, [A.Print([A.Str('!' + c)])]) for c in ERROR_CLASSES]
    catches.append(('e', 'Error', [A.Print([A.Str('!Error')])]))
    return A.Try(stmts, catches)


def guarded_msg(stmts):
    """like guarded but prints the (user supplied) message as well"""
    catches = [('e', c, [A.Print([A.Str('!' + c), A.Prop(A.Var('e'), 'message')])]) for c in ERROR_CLASSES]
    catches.append(('e', 'Error', [A.Print([A.Str('!Error'), A.Prop(A.Var('e'), 'message')])]))
    return A.Try(stmts, catches)


class Probe:
    def __init__(self, name, items, mode='match', msg=False):
        self.name = name
        self.mode = mode          # match | refuse | any
        stmts = []
        self.short = []
        if mode == 'any':
            # generated probes often yield iterators, which print() shows by name
            # in the VM while lyref refuses to print them: show them via str()
            stmts.append(A.Fn('show', ['v'], [
                A.If(A.Call(A.Prop(A.Var('v'), 'isA?'), [A.Var('Iter')]),
                     [A.Return(A.Bin('+', A.Str('<iter> '), A.Call(A.Prop(A.Var('v'), 'str'), [])))], None, None),
                A.Return(A.Var('v'))]))
        for x in items:
            self.short.append(A.to_source([A.ExprS(x.n)] if isinstance(x, E) else [x]).rstrip())
            if isinstance(x, E):
                body = [A.Print([A.Call(A.Var('show'), [x.n])] if mode == 'any' else [x.n])]
                stmts.append(guarded_msg(body) if msg else guarded(body))
            elif isinstance(x, A.N):
                stmts.append(x)
            else:
                raise TypeError(x)
        self.stmts = stmts


PROBES = []


def probe(name, *items, **kw):
    PROBES.append(Probe(name, items, **kw))


def refuse(name, *items, **kw):
    PROBES.append(Probe(name, items, mode='refuse', **kw))


def auto(name, *items, **kw):
    PROBES.append(Probe(name, items, mode='any', **kw))


# ---------------------------------------------------------------------------
# probe table

NUMS = [0, 1, 2, 3, 4, -1, -2, -3, -4, 0.5, -0.5, 2.5, -0.0, NAN, INF, -INF, 1e19, -1e19, 1.8446744073709552e19,
        1e300, -1e300, 4294967296, 9007199254740993]
ODD = [None, True, 1, 's', [], (), {}]     # wrong-kind candidates (plus a lambda, added below)


def nm(v):
    return repr(v)


def index_probes():
    lists = {'empty': [], 'one': [7], 'three': [1, 'b', [3]]}
    for ln, lv in lists.items():
        for i in NUMS:
            probe('list[] %s %s' % (ln, nm(i)), L(*lv)[i])
            probe('list[]= %s %s' % (ln, nm(i)), let('a', lv), E(A.Assign(A.Index(A.Var('a'), lift(i)), lift('X'))),
                  V('a'))
            probe('list.remove %s %s' % (ln, nm(i)), let('a', lv), V('a').remove(i), V('a'))
            probe('list.insert %s %s' % (ln, nm(i)), let('a', lv), V('a').insert(i, 'X'), V('a'))
            probe('list.slice1 %s %s' % (ln, nm(i)), let('a', lv), V('a').slice(i), V('a'))
            probe('tuple[] %s %s' % (ln, nm(i)), T(*lv)[i])
            probe('tuple.slice1 %s %s' % (ln, nm(i)), T(*lv).slice(i))
        for i in NUMS[:13] + [NAN, INF]:
            for j in NUMS[:13] + [NAN, -INF]:
                if ln == 'one':
                    continue
                probe('list.slice2 %s %s %s' % (ln, nm(i), nm(j)), L(*lv).slice(i, j))
        for i in [0, 1, 3, -1, -4, 0.5, NAN]:
            for j in [0, 2, 3, 4, -1, -3, -5, 1.5, INF]:
                probe('tuple.slice2 %s %s %s' % (ln, nm(i), nm(j)), T(*lv).slice(i, j))
    strings = ['', 'a', 'abc', 'héé', '日本語', 'a😀b']
    for s in strings:
        for i in NUMS:
            probe('str[] %r %s' % (s, nm(i)), X(s)[i])
            probe('str.slice1 %r %s' % (s, nm(i)), X(s).slice(i))
        for i in [0, 1, 2, 3, -1, -2, -3, -4, 0.5, NAN, 1e19]:
            for j in [0, 1, 2, 3, 4, 5, 6, 9, -1, -2, -3, -4, 0.5, INF, -1e19]:
                probe('str.slice2 %r %s %s' % (s, nm(i), nm(j)), X(s).slice(i, j))
        probe('str.slice0 %r' % s, X(s).slice())
    probe('list.slice0', L(1, 2).slice(), L().slice())
    probe('tuple.slice0', T(1, 2).slice(), T().slice())
    probe('list.slice copy', let('a', [1, 2, 3]), let('b', V('a').slice()), V('b').push(4), V('a'), V('b'))
    # compound assignment through the index operators
    probe('list[] op=', let('a', [1, 2]), E(A.OpAssign(A.Index(A.Var('a'), lift(1)), '+', lift(5))), V('a'))
    probe('list[] op= bad', let('a', [1, 2]), E(A.OpAssign(A.Index(A.Var('a'), lift(2)), '+', lift(5))), V('a'))
    probe('map[] op=', let('a', {'k': 1}), E(A.OpAssign(A.Index(A.Var('a'), lift('k')), '*', lift(5))), V('a'))
    probe('map[] op= missing', let('a', {'k': 1}), E(A.OpAssign(A.Index(A.Var('a'), lift('z')), '*', lift(5))),
          V('a'))
    probe('str[]= none', let('a', 'abc'), E(A.Assign(A.Index(A.Var('a'), lift(0)), lift('X'))))
    probe('tuple[]= none', let('a', (1, 2)), E(A.Assign(A.Index(A.Var('a'), lift(0)), lift('X'))))
    probe('num[] none', X(1)[0], X(None)[0], X(True)[0])


def number_probes():
    vals = [0, 1, 2.5, -2.5, 0.5, -0.5, 1.5, -1.5, 0.49999999999999994, -0.49999999999999994, 2.4999999999999996,
            4503599627370495.5, 4503599627370496.0, 9007199254740992.0, -0.0, NAN, INF, -INF, 1e21, 1e-7, 123456789.125,
            0.1, 1 / 3, 1e300, 5e-324, -7, 3.0000000000000004]
    for v in vals:
        probe('num.floor/ceil/round/str %s' % nm(v), X(v).floor(), X(v).ceil(), X(v).round(), X(v).str())
    for v in [0, 1, 3, -1, 0.5, -0.0, NAN, INF, -INF, 2.5]:
        probe('num.times %s' % nm(v), X(v).times().list())
        probe('num.times len %s' % nm(v), X(v).times().len())
    probe('num.times big len', X(1e300).times().len(), X(1e19).times().len(), X(9007199254740994).times().len(),
          X(1.8446744073709552e19).times().len())
    for lo in [0, 1, -2, 0.5, NAN, INF, -INF]:
        for hi in [0, 3, -1, 2.25, NAN, INF, -INF]:
            if (hi == INF and lo != INF and lo == lo) or (lo == -INF and hi == hi and hi != -INF):
                continue    # infinite
            probe('num.until %s %s' % (nm(lo), nm(hi)), X(lo).until(hi).list())
    for stride in [1, 2, 0.5, 0.75, 0, -0.0, -1, NAN, INF, -INF, 10, 1e-1]:
        probe('num.until stride %s' % nm(stride), X(1).until(4, stride).list(),
              let('u', X(1).until(4, stride)), V('u').current(), V('u').next(), V('u').current())
    probe('num.until len', X(0).until(5).len(), X(0).until(5, 2).len(), X(3).until(0).len())
    probe('num.until current', let('u', X(5).until(3)), V('u').current(), V('u').next(), V('u').current())
    probe('num.until float accumulate', X(0).until(1, 0.1).list())
    probe('num.until take from infinite', X(0).until(INF).take(3).list())
    for a in [0, 1, -1, 2.5, NAN, INF, -INF, -0.0]:
        for b in [0, 1, 2.5, NAN, INF, -INF]:
            probe('Number.cmp %s %s' % (nm(a), nm(b)), V('Number').cmp(a, b))
    strs = ['1', '1.5', '-1.5', '+2', '.5', '5.', '1e3', '1E3', '1e+3', '1e-3', '-.5e-2', 'inf', '-inf', '+inf',
            'Infinity', 'INFINITY', 'infinity', 'nan', 'NaN', '-nan', 'NAN', '', ' ', ' 1', '1 ', '1_000', '0x10',
            '1e', 'e5', '.', '-', '+', '--1', '1.2.3', 'abc', '1a', '1e400', '1e-400', '0.1', '00012',
            '123456789012345678901234567890', '1f', 'infin', 'in', 'nanx', '1e5.5', '\t1', '1\n', '١', '１',
            '0.30000000000000004', '4.35', '2.675', '9007199254740993', '1e23', '8.41e21', '-0', '+0', '1.e5',
            '.e5', '1e+', '+.', '+e1', 'i', 'n', '+n', '1,5', "1'0", '0b1', '0o7', '1d', '1E', 'Inf', 'iNf', 'nAn',
            '+NaN', '-Infinity', 'infinit', 'infinityy', '1.7976931348623157e308', '1.7976931348623159e308',
            '2.2250738585072014e-308', '4.9e-324', '2.4e-324', '2.5e-324']
    for s in strs:
        probe('Number.parse %r' % s, V('Number').parse(s))
    probe('num.equals', X(1).equals(1), X(1).equals(2), X(NAN).equals(NAN), X(0).equals(-0.0), X(1).equals('1'),
          X(1).equals(True), X(1).equals(None))
    probe('num.cls', X(1).cls().name(), eq(X(1).cls(), V('Number')), X(1).cls().superCls().name())
    probe('num.isA?', X(1).m('isA?')(V('Number')), X(1).m('isA?')(V('Object')), X(1).m('isA?')(V('String')),
          X(1).m('isA?')(V('Error')))
    refuse('num.isA? non class', X(1).m('isA?')(1))
    probe('num no method', X(1).foo(), X(1).len(), X(1).push(1))
    probe('num get missing prop', X(1).foo)
    probe('num method value', let('f', X(3).times), V('f')().list(), V('f').name(), V('f').call().len())
    probe('negative literal method', X(-2.5).round(), (-X(2.5).round()), X(-1).times())


def string_probes():
    strings = ['', 'a', 'abc', 'héé', '日本語', 'a😀b', ' x ', '\t\nx y\n ', 'Hello World', 'ǅ', 'ß', 'İ', 'ΑΣ',
               '\u00a0x\u00a0', '\u2003x\u2003', '\u200bx\u200b', '\u0085x\u0085', '\u3000x', '\u1680x\u1680',
               '\u180ex', '\u2028x\u2029', '\u202fx\u205f', '\ufeffx', '\x0bx\x0c', '\x1cx\x1f', 'é', 'É', 'ÿ',
               'µ', 'straße', 'ŉ', 'Привет', 'αβγ', 'ς', 'σ']
    for s in strings:
        probe('str basics %r' % s, X(s).len(), X(s).str(), X(s).iter().list(), X(s).trim(), X(s).trimStart(),
              X(s).trimEnd())
        if lynative.case_safe(s):
            probe('str case %r' % s, X(s).upCase(), X(s).downCase())
        else:
            refuse('str case %r' % s, X(s).upCase())
            refuse('str down case %r' % s, X(s).downCase())
    for s, sep in [('a,b,,c', ','), ('', ','), ('', ''), ('abc', ''), (',', ','), (',,', ','), ('aXXbXXXc', 'XX'),
                   ('abc', 'abc'), ('abc', 'abcd'), ('héé', 'é'), ('日本語', '本'), ('a😀b', '😀'), ('a😀b', ''),
                   ('aaa', 'aa'), ('a b  c', ' ')]:
        probe('str.split %r %r' % (s, sep), X(s).split(sep).list(), X(s).split(sep).len())
    probe('str.split iter', let('i', X('a,b').split(',')), V('i').current(), V('i').next(), V('i').current(),
          V('i').next(), V('i').current(), V('i').next(), V('i').current(), V('i').str())
    for s, t in [('abc', 'b'), ('abc', ''), ('', ''), ('', 'a'), ('abc', 'abc'), ('abc', 'abcd'), ('héé', 'é'),
                 ('héé', 'e'), ('a😀b', '😀'), ('abc', 'ac')]:
        probe('str.has %r %r' % (s, t), X(s).has(t))
    probe('str.iter', let('i', X('hé').iter()), V('i').current(), V('i').next(), V('i').current(), V('i').next(),
          V('i').current(), V('i').next(), V('i').current(), V('i').next(), V('i').str(), V('i').len())
    probe('str.iter len consumes', let('i', X('héé').iter()), V('i').next(), V('i').len(), V('i').next())
    probe('str for', A.For('c', lift('a😀b'), [pr(V('c'))]))
    probe('str.equals', X('a').equals('a'), X('a').equals('b'), X('a').equals(1), X('ab').equals(X('a') + 'b'))
    probe('str.cls', X('a').cls().name(), eq(X('a').cls(), V('String')), X('a').m('isA?')(V('String')),
          X('a').m('isA?')(V('Object')), X('a').m('isA?')(V('Number')))
    probe('str no method', X('a').push(1), X('a').foo)
    probe('str concat identity', eq(X('a') + 'b', 'ab'), L('ab').has(X('a') + 'b'), L('ab').index(X('a') + 'b'))
    probe('str quote nesting', L("it's", 'a"b', '').str(), T('x').str(), M({'k': 'v'}).str(), L(L('a')).str())
    probe('str interp', E(A.Interp(['n=', lift(1.5), ' ', lift(None)])))


def bool_nil_probes():
    probe('bool', X(True).str(), X(False).str(), X(True).equals(True), X(True).equals(False), X(True).equals(1),
          X(True).cls().name(), X(True).m('isA?')(V('Bool')), X(False).m('isA?')(V('Nil')), eq(X(True).cls(), V('Bool')))
    probe('nil', X(None).str(), X(None).equals(None), X(None).equals(False), X(None).cls().name(),
          X(None).m('isA?')(V('Nil')), X(None).m('isA?')(V('Object')), eq(X(None).cls(), V('Nil')))
    probe('bool nil no method', X(True).len(), X(None).len(), X(None).foo, X(True).foo)
    probe('bool nil arity', X(True).str(1), X(None).str(1), X(True).equals(), X(None).equals(1, 2))


def list_probes():
    probe('list.push', let('a', []), V('a').push(), V('a'), V('a').push(1), V('a'), V('a').push(2, 's', None, [3]),
          V('a'), V('a').len())
    probe('list.push grow', let('a', [1, 2, 3, 4]), V('a').push(5), V('a').push(6, 7, 8, 9, 10), V('a'), V('a').len())
    probe('list.push self ref len', let('a', [1]), V('a').push(V('a')), V('a').len(), eq(V('a')[1], V('a')))
    probe('list.pop', let('a', [1, 2]), V('a').pop(), V('a').pop(), V('a').pop(), V('a'), V('a').len())
    probe('list.clear', let('a', [1, 2]), V('a').clear(), V('a'), V('a').push(3), V('a'), L().clear())
    probe('list.len', L().len(), L(1).len(), L(1, [2, 3]).len())
    for v in [1, 2.5, NAN, -0.0, 0, 's', 'ab', None, True, False, [], ()]:
        probe('list.has/index %s' % nm(v), L(3, 1, 's', None, True, 0.0, NAN, [], 1, X('a') + 'b').has(v),
              L(3, 1, 's', None, True, 0.0, NAN, [], 1, X('a') + 'b').index(v),
              T(3, 1, 's', None, True, 0.0, NAN, [], 1, X('a') + 'b').has(v),
              T(3, 1, 's', None, True, 0.0, NAN, [], 1, X('a') + 'b').index(v))
    probe('list.has identity', let('x', [1]), let('y', [1]), let('a', [V('x')]), V('a').has(V('x')), V('a').has(V('y')),
          V('a').index(V('x')), V('a').index(V('y')), T(V('x')).has(V('x')), T(V('x')).has(V('y')))
    probe('list.has false vs nil', L(False).has(None), L(None).has(False), L(0).has(False), L('').has(None),
          L(False).index(False), L(1).has(True))
    probe('list.has closures', fn('f', ''), let('a', [V('f')]), V('a').has(V('f')), V('a').index(V('f')),
          L(V('print')).has(V('print')), L(L().push).has(L().push))
    probe('list.rev', let('a', [1, 's', [2]]), let('b', V('a').rev()), V('b'), V('a'), V('b').push(1), V('a'), V('b'),
          L().rev(), L(1).rev())
    probe('list.str', L().str(), L(1).str(), L(1, 's', None, True, 2.5, [1, ['x']], (1, 's'), (), (1,), {}, {'a': 1}).str(),
          L(NAN, INF, -INF, -0.0, 1e21, 1e-7).str())
    probe('list.str iter inside', L(L(1).iter(), X(2).times(), X('s').iter()).str(), T(L().iter()).str(),
          M({1: L().iter().map(lam('x', V('x')))}).str())
    refuse('list.str cyclic', let('a', [1]), V('a').push(V('a')), V('a').str())
    refuse('list.str cyclic via tuple', let('a', [1]), V('a').push(T(V('a'))), V('a').str())
    refuse('map.str cyclic', let('a', {}), A.ExprS(A.Assign(A.Index(A.Var('a'), lift(1)), A.Var('a'))), V('a').str())
    refuse('print cyclic', let('a', [1]), V('a').push(V('a')), V('a'))
    probe('list.str shared not cyclic', let('x', [1]), L(V('x'), V('x'), (V('x'),)).str())
    probe('list.str user str', A.Class('P', None, None, [fn('str', '', pr('str called'), ret('P!'))]),
          L(V('P')(), 's').str(), T(V('P')()).str(), M({1: V('P')()}).str(), M({V('P')(): 1}).len())
    probe('list.str user str raises', A.Class('P', None, None, [fn('str', '', rz('ValueError', 'no str'))]),
          L(1, V('P')()).str(), msg=True)
    refuse('list.str instance address', A.Class('P', None, None, []), L(V('P')()).str())
    refuse('list.str fn address', fn('f', ''), L(V('f')).str())
    refuse('list.str class address', L(V('Number')).str())
    probe('list.iter', let('a', [1, 2]), let('i', V('a').iter()), V('i').current(), V('i').next(), V('i').current(),
          V('i').next(), V('i').current(), V('i').next(), V('i').current(), V('i').next(), V('i').str(), V('i').len())
    probe('list.iter live', let('a', [1]), let('i', V('a').iter()), V('i').next(), V('i').next(), V('i').current(),
          V('a').push(7), V('i').len(), V('i').next(), V('i').current(), V('a').clear(), V('i').next(), V('i').len(),
          V('a').push(1, 2, 3), V('i').next(), V('i').current())
    probe('list.iter mutate during for', let('a', [1, 2, 3]),
          A.For('x', lift(V('a')), [pr(V('x')), ife(eq(V('x'), 1), [V('a').push(9)]), ife(eq(V('x'), 2), [V('a').remove(0)])]),
          V('a'))
    probe('list for', A.For('x', lift([1, 's', [2]]), [pr(V('x'))]), A.For('x', lift([]), [pr(V('x'))]))
    probe('list for break continue', A.For('x', lift([1, 2, 3, 4]), [ife(eq(V('x'), 2), [A.Continue()]),
                                                                   ife(eq(V('x'), 4), [A.Break()]), pr(V('x'))]))
    probe('List.collect', V('List').collect(L(1, 2).iter()), V('List').collect(X('ab').iter()),
          V('List').collect(X(3).times().map(lam('x', V('x') * 2))), V('List').collect(L().iter()),
          V('List').collect(X(0).until(2)))
    probe('List.collect arity/kinds', V('List').collect(), V('List').collect(L().iter(), 1))
    probe('List.collect partial', let('i', L(1, 2, 3).iter()), V('i').next(), V('List').collect(V('i')),
          V('List').collect(V('i')), V('i').current())
    refuse('List.collect non iter', V('List').collect([1]))
    refuse('List.collect nil', V('List').collect(None))
    refuse('List.collect number', V('List').collect(1))
    probe('List.collect result independent', let('a', [1, 2]), let('b', V('List').collect(V('a').iter())), V('b').push(3),
          V('a'), V('b'))
    probe('List class', V('List').name(), V('List').superCls().name(), eq(L().cls(), V('List')), L().m('isA?')(V('List')),
          L().m('isA?')(V('Object')), L().m('isA?')(V('Tuple')), V('List').collect.name(), V('List').foo())
    probe('List statics not on instances', L().collect(L().iter()))
    probe('list.equals', let('a', [1]), V('a').equals(V('a')), V('a').equals([1]), eq(V('a'), V('a')), L().equals(None))
    probe('list no method', L().foo(), L().foo, L().size())
    # zero capacity lists (real VM: heap overflow on growth)
    refuse('zero cap push times', let('a', X(0).times().list()), V('a').push(1))
    refuse('zero cap push collect', let('a', V('List').collect(L().iter())), V('a').push(1))
    refuse('zero cap insert', let('a', L(1).iter().take(0).list()), V('a').insert(0, 1))
    refuse('zero cap skip', let('a', L(1).iter().skip(1).list()), V('a').push(1, 2))
    refuse('zero cap map iter', let('a', M().iter().list()), V('a').push(1))
    probe('zero cap harmless', let('a', X(0).times().list()), V('a').push(), V('a'), V('a').len(), V('a').pop(),
          V('a').clear(), V('a').insert(1, 2), V('a').insert(-1, 2), V('a').insert(0.5, 1), V('a').remove(0),
          V('a').slice(), V('a').rev(), V('a').str(), V('a').has(1), V('a').iter().list(), V('a')[0])
    probe('unsized empty collect is growable', let('a', L(1).iter().filter(lam('x', False)).list()), V('a').push(1, 2, 3),
          V('a'), let('b', V('List').collect(X('').iter())), V('b').push(1), V('b'),
          let('c', X(0).times().list().slice()), V('c').push(1), V('c'), let('d', X(0).times().list().rev()),
          V('d').push(1), V('d'))
    probe('sized nonempty collect is growable', let('a', X(1).times().list()), V('a').push(1, 2, 3), V('a'),
          let('b', X(3).times().list()), V('b').push(1), V('b').insert(0, 9), V('b'))


def sort_probes():
    cmpn = lam('a b', V('a') - V('b'))
    probe('sort numbers', L(3, 1, 2).sort(cmpn), L().sort(cmpn), L(1).sort(cmpn), L(2, 1).sort(cmpn),
          L(5, 3, 9, 1, 1, 8, 2, 7, 3, 0, -1, 2.5).sort(cmpn), L(1, 2, 3).sort(lam('a b', V('b') - V('a'))))
    probe('sort is a copy', let('a', [3, 1, 2]), let('b', V('a').sort(cmpn)), V('a'), V('b'), V('b').push(0), V('a'))
    probe('sort Number.cmp', L(3, 1, 2).sort(V('Number').cmp), L(3, 1, 2).sort(V('Number').cmp).len())
    probe('sort stable', L([2, 'a'], [1, 'b'], [2, 'c'], [1, 'd'], [0, 'e'], [2, 'f'])
          .sort(lam('a b', V('a')[0] - V('b')[0])))
    probe('sort all equal', L(3, 1, 2).sort(lam('a b', 0)), L('x', 'y').sort(lam('a b', -0.0)))
    probe('sort 30 elements', L(*[((i * 7919) % 31) for i in range(30)]).sort(cmpn))
    probe('sort 30 stable', L(*[[(i * 7) % 5, i] for i in range(30)]).sort(lam('a b', V('a')[0] - V('b')[0])))
    probe('sort large magnitudes', L(1e300, -1e300, 5).sort(cmpn), L(0.5, 0.25, 0.75).sort(cmpn))
    probe('sort comparator non number', L(2, 1).sort(lam('a b', 's')), L(2, 1).sort(lam('a b', None)),
          L(2, 1).sort(lam('a b', True)), L(2, 1).sort(lam('a b', NAN)), L(3, 2, 1).sort(lam('a b', [])))
    probe('sort comparator non number unused', L().sort(lam('a b', 's')), L(1).sort(lam('a b', 's')))
    probe('sort comparator raises', L(2, 1, 3).sort(blk('a b', rz('ValueError', 'cmp'))), msg=True)
    probe('sort comparator raises uncaught', A.ExprS(lift(L(2, 1).sort(blk('a b', rz('KeyError', 'cmp'))))))
    probe('sort comparator arity', L(2, 1).sort(lam('a', 0)), L(2, 1).sort(lam('a b c', 0)), L(1).sort(lam('a', 0)))
    probe('sort kinds', L(2, 1).sort(None), L(2, 1).sort(1), L(2, 1).sort(V('Number')), L(2, 1).sort(),
          L(2, 1).sort(cmpn, 1))
    probe('sort inf nan values', L(INF, -INF, 0).sort(cmpn))
    refuse('sort nan among values', L(1, NAN, 0).sort(cmpn))
    refuse('sort inconsistent', L(1, 2, 3).sort(lam('a b', 1)))
    refuse('sort inconsistent 2', L(1, 2, 3).sort(lam('a b', -1)))
    refuse('sort printing comparator', L(2, 1).sort(blk('a b', pr('cmp'), ret(V('a') - V('b')))))
    refuse('sort sometimes failing', L(1, 2, 3).sort(blk('a b', ife(eq(V('a'), 2), [rz('ValueError', 'x')]), ret(V('a') - V('b')))))
    refuse('sort intransitive equality', L(1, 2, 3).sort(blk('a b', ife(V('a') - V('b') > 1, [ret(1)]),
                                                             ife(V('b') - V('a') > 1, [ret(-1)]), ret(0))))
    probe('sort strings by len', L('ccc', 'a', 'bb').sort(lam('a b', V('a').len() - V('b').len())))
    probe('sort method comparator', A.Class('C', None, None, [fn('cmp', 'a b', ret(V('b') - V('a')))]),
          L(1, 3, 2).sort(V('C')().cmp))


def tuple_probes():
    probe('tuple basics', T().len(), T(1).len(), T(1, 's', [2]).len(), T().str(), T(1).str(), T(1, 's', (2, 's')).str())
    probe('tuple.iter', let('i', T(1, 2).iter()), V('i').current(), V('i').next(), V('i').current(), V('i').next(),
          V('i').next(), V('i').current(), V('i').str(), V('i').len())
    probe('tuple for', A.For('x', lift((1, 's')), [pr(V('x'))]), A.For('x', lift(()), [pr(V('x'))]))
    probe('Tuple.collect', V('Tuple').collect(L(1, 2).iter()), V('Tuple').collect(L().iter()),
          V('Tuple').collect(X('ab').iter()), V('Tuple').collect(X(2).times()).len(), V('Tuple').collect(),
          V('Tuple').collect(L().iter(), 1), V('Tuple').collect(X(3).times().filter(lam('x', V('x') > 0))))
    refuse('Tuple.collect non iter', V('Tuple').collect((1,)))
    probe('Tuple class', V('Tuple').name(), eq(T().cls(), V('Tuple')), T().m('isA?')(V('Tuple')), T().m('isA?')(V('List')))
    probe('tuple immutable', T(1).push(2), T(1).pop(), T(1).clear(), T(1).insert(0, 1), T(1).remove(0), T(1).rev(),
          T(1).sort(lam('a b', 0)))
    probe('tuple.equals', let('t', (1,)), V('t').equals(V('t')), V('t').equals((1,)), eq(T(), T()))
    probe('tuple slice type', T(1, 2, 3).slice(1).cls().name(), T(1, 2, 3).slice(1, 2), T(1, 2, 3).slice(-2).str())
    probe('tuple zip result', L(1).iter().zip(L(2).iter()).first().cls().name())


def map_probes():
    probe('map basics', M().len(), M({1: 2}).len(), M({1: 2, 's': 3}).len(), M().str(), M({1: 2}).str(),
          M({'k': 'v'}).str(), M({None: None}).str(), M({True: [1, 's']}).str(), M({(1, 2): {}}).str())
    probe('map literal dup keys', M([(1, 2), (1, 3)]).len(), M([(1, 2), (1, 3)])[1], M([('a', 1), (X('') + 'a', 2)]).len())
    refuse('map.str two entries', M({1: 2, 3: 4}).str())
    for k in [1, 1.0, 2, 0, -0.0, 's', '', None, True, False, 0.5, INF, -INF, [], ()]:
        probe('map get %s' % nm(k), let('m', M([(1, 'one'), (0, 'zero'), ('s', 'str'), (None, 'nil'), (True, 'true'),
                                                (INF, 'inf'), (0.5, 'half'), ('', 'empty')])),
              V('m')[k], V('m').get(k), V('m').has(k), V('m').len())
    refuse('map nan key index', M()[NAN])
    refuse('map nan key set', let('m', {}), E(A.Assign(A.Index(A.Var('m'), lift(NAN)), lift(1))))
    refuse('map nan key literal', M({NAN: 1}).len())
    refuse('map nan key get', M().get(NAN))
    refuse('map nan key has', M().has(NAN))
    refuse('map nan key insert', M().insert(NAN, 1))
    refuse('map nan key remove', M().remove(NAN))
    probe('map set/insert/remove returns', let('m', {}), V('m').set('a', 1), V('m').set('a', 2), V('m').insert('a', 3),
          V('m').insert('b', 4), V('m').len(), V('m')['a'], V('m').remove('a'), V('m').remove('a'), V('m').len(),
          V('m').remove('b'), V('m'), V('m').remove('zz'), V('m').get('a'))
    probe('map []= returns', let('m', {}), E(A.Assign(A.Index(A.Var('m'), lift('k')), lift(5))), V('m'),
          E(A.Assign(A.Index(A.Var('m'), lift('k')), lift(6))), V('m'), V('m').len())
    probe('map zero keys', let('m', {}), V('m').set(0, 'a'), V('m').set(-0.0, 'b'), V('m').len(), V('m')[0], V('m')[-0.0])
    probe('map keeps first key object', let('m', {}), V('m').set(-0.0, 'a'), V('m').set(0, 'b'), V('m'))
    probe('map object keys', let('k', [1]), let('m', {}), V('m').set(V('k'), 1), V('m').has(V('k')), V('m').has([1]),
          V('m')[V('k')], V('m').get([1]), V('m').len(), V('m').remove(V('k')), V('m').len())
    probe('map tuple keys identity', let('k', (1,)), let('m', {}), V('m').set(V('k'), 1), V('m').has(V('k')),
          V('m').has((1,)))
    probe('map class/fn keys', fn('f', ''), let('m', {}), V('m').set(V('f'), 1), V('m').set(V('Number'), 2), V('m')[V('f')],
          V('m')[V('Number')], V('m').has(V('print')), V('m').len())
    probe('map string key by content', let('m', {'ab': 1}), V('m')[X('a') + 'b'], V('m').has(X('a') + 'b'))
    probe('map number key kinds', let('m', {1: 'n', '1': 's', True: 'b'}), V('m')[1], V('m')['1'], V('m')[True],
          V('m').len(), V('m').get(False))
    probe('map.iter empty', let('i', M().iter()), V('i').current(), V('i').next(), V('i').current(), V('i').str(),
          V('i').len(), M().iter().list(), M().iter().first(), M().iter().last())
    probe('map.iter one', let('i', M({'k': 'v'}).iter()), V('i').current(), V('i').len(), V('i').next(), V('i').current(),
          V('i').current().cls().name(), V('i').len(), V('i').next(), V('i').current(), V('i').next())
    probe('map.iter one entry is a fresh list', let('m', {'k': 'v'}), let('e', V('m').iter().first()), V('e').push(1),
          V('e'), V('m'), V('m').iter().first())
    probe('map for one', A.For('kv', lift(M({1: 2})), [pr(V('kv'), V('kv')[0], V('kv')[1])]),
          A.For('kv', lift(M()), [pr(V('kv'))]))
    probe('map.iter len is live', let('m', {1: 2}), let('i', V('m').iter()), V('i').len(), V('m').set(3, 4), V('m').set(5, 6),
          V('i').len(), V('m').iter().len(), V('m').iter().map(lam('x', V('x'))).len())
    refuse('map.iter two entries', M({1: 2, 3: 4}).iter().list())
    refuse('map.iter two entries next', M({1: 2, 3: 4}).iter().next())
    refuse('map for two entries', A.For('kv', lift(M({1: 2, 3: 4})), [pr(V('kv'))]))
    probe('map.iter two entries unobserved', let('i', M({1: 2, 3: 4}).iter()), V('i').len(), V('i').current(), V('i').str())
    refuse('map.iter after insert', let('m', {}), let('i', V('m').iter()), V('m').set(1, 2), V('i').next())
    refuse('map.iter after remove', let('m', {1: 2}), let('i', V('m').iter()), V('m').remove(1), V('i').next())
    probe('map.iter after value update', let('m', {1: 2}), let('i', V('m').iter()), V('m').set(1, 3), V('i').next(),
          V('i').current())
    probe('Map class', V('Map').name(), eq(M().cls(), V('Map')), M().m('isA?')(V('Map')), M().equals(M()),
          let('m', {}), V('m').equals(V('m')))
    probe('map no method', M().push(1), M().foo, M().clear(), M().keys(), M().values())


def iter_probes():
    cb = blk('x', pr('cb', V('x')), ret(V('x') * 10))
    pred = blk('x', pr('pred', V('x')), ret(V('x') > 1))
    probe('iter map lazy', let('i', L(1, 2, 3).iter().map(cb)), pr('made'), V('i').len(), V('i').next(), V('i').current(),
          V('i').list(), V('i').next(), V('i').current())
    probe('iter filter', let('i', L(1, 2, 3, 0).iter().filter(pred)), pr('made'), V('i').next(), V('i').current(),
          V('i').len(), V('i').next(), V('i').current())
    probe('iter filter list', L(1, 2, 3, 0).iter().filter(pred).list(), L().iter().filter(pred).list(),
          L(None, False, 0, '', []).iter().filter(lam('x', V('x'))).list())
    probe('iter map filter chain order', L(1, 2, 3).iter().map(cb).filter(blk('x', pr('p2', V('x')), ret(V('x') > 10))).list())
    probe('iter reduce', L(1, 2, 3).iter().reduce(0, blk('a x', pr('r', V('a'), V('x')), ret(V('a') + V('x')))),
          L().iter().reduce('init', lam('a x', 1)), L('a', 'b').iter().reduce('', lam('a x', V('a') + V('x'))),
          L(1).iter().reduce(None, lam('a x', V('a'))))
    probe('iter reduce kinds', L(1).iter().reduce(0), L(1).iter().reduce(0, 1), L(1).iter().reduce(0, None),
          L(1).iter().reduce(lam('a x', 1)), L(1).iter().reduce(0, lam('a', 1)), L().iter().reduce(0, lam('a', 1)),
          L(1).iter().reduce(0, lam('a x', 1), 2))
    probe('iter each', L(1, 2).iter().each(cb), L().iter().each(cb), L(1).iter().each(V('print')),
          L(1).iter().each(lam('', 1)))
    probe('iter all/any', L(1, 2, 3).iter().all(pred), L(2, 3).iter().all(pred), L(0, 2, 3).iter().any(pred),
          L(0, 1).iter().any(pred), L().iter().all(pred), L().iter().any(pred),
          L(1).iter().all(lam('x', None)), L(1).iter().all(lam('x', 0)), L(1).iter().any(lam('x', '')))
    probe('iter all stops early', let('i', L(1, 2, 3).iter()), V('i').all(lam('x', V('x') < 2)), V('i').current(),
          V('i').list())
    probe('iter any stops early', let('i', L(1, 2, 3).iter()), V('i').any(lam('x', V('x') > 1)), V('i').current(),
          V('i').list())
    probe('iter first/last', L(1, 2, 3).iter().first(), L(1, 2, 3).iter().last(), L().iter().first(), L().iter().last(),
          let('i', L(1, 2, 3).iter()), V('i').first(), V('i').first(), V('i').last(), V('i').first(), V('i').current(),
          L(1, 2, 3).iter().map(cb).first(), L(1, 2).iter().map(cb).last())
    for n in [0, 1, 2, 3, 5, -1, -0.0, 0.5, NAN, INF, -INF, 1e19, 1e300]:
        probe('iter take %s' % nm(n), L(1, 2, 3).iter().take(n).list(), L(1, 2, 3).iter().take(n).len(),
              L(1, 2, 3).iter().filter(lam('x', True)).take(n).len())
        probe('iter skip %s' % nm(n), L(1, 2, 3).iter().skip(n).filter(lam('x', True)).list(),
              L(1, 2, 3).iter().skip(n).len(), L(1, 2, 3).iter().filter(lam('x', True)).skip(n).len())
    probe('iter take pulls exactly n', let('s', L(1, 2, 3).iter().map(cb)), let('t', V('s').take(2)), V('t').list(),
          V('s').current(), V('t').current(), V('s').next(), V('s').current(), V('t').current(), V('t').next(),
          V('t').current())
    probe('iter take current delegates', let('s', L(1, 2, 3).iter()), let('t', V('s').take(1)), V('t').current(),
          V('t').next(), V('t').current(), V('s').next(), V('s').current(), V('t').current(), V('t').next(),
          V('t').current(), V('t').next(), V('t').len())
    probe('iter skip eager', let('s', L(1, 2, 3).iter().map(cb)), pr('before'), let('k', V('s').skip(2)), pr('after'),
          V('k').current(), V('s').current(), V('k').next(), V('k').current(), V('k').next(), V('k').current())
    probe('iter skip len uses total', let('s', L(1, 2, 3).iter()), V('s').next(), V('s').next(), V('s').skip(0).len(),
          V('s').skip(1).len(), V('s').len(), V('s').list())
    probe('iter skip callback raises', let('s', L(1, 2, 3).iter().map(blk('x', ife(eq(V('x'), 2), [rz('ValueError', 'two')]),
                                                                      ret(V('x'))))),
          V('s').skip(3), V('s').current(), V('s').next(), V('s').current(), msg=True)
    probe('iter len sized does not consume', let('i', L(1, 2, 3).iter()), V('i').len(), V('i').next(), V('i').len(),
          V('i').map(cb).len(), V('i').list())
    probe('iter len unsized consumes', let('i', L(1, 2, 3).iter().filter(lam('x', True))), V('i').len(), V('i').len(),
          V('i').next(), let('j', X('abc').iter()), V('j').len(), V('j').next(), X(0).until(3).len(),
          X('a,b').split(',').len())
    probe('iter zip', L(1, 2, 3).iter().zip(L('a', 'b').iter()).list(), L(1).iter().zip().list(),
          L(1, 2).iter().zip(L(3, 4).iter(), L(5, 6).iter()).list(), L().iter().zip(L(1).iter()).list(),
          L(1, 2).iter().zip(L().iter()).list(), L(1, 2).iter().zip(L(3).iter()).len(),
          L(1, 2).iter().zip(X('abc').iter()).len(), L(1, 2).iter().zip(X('a').iter()).list())
    probe('iter zip advances left first', let('a', L(1, 2, 3).iter()), let('b', L('x').iter()), let('z', V('a').zip(V('b'))),
          V('z').current(), V('z').next(), V('z').current(), V('z').next(), V('z').current(), V('a').current(),
          V('b').current(), V('z').next(), V('a').current(), V('z').next(), V('a').current(), V('z').next())
    probe('iter zip same iterator', let('a', L(1, 2, 3, 4, 5).iter()), V('a').zip(V('a')).list(), V('a').zip(V('a')).len())
    probe('iter zip fresh tuples', let('z', L(1, 2).iter().zip(L(3, 4).iter())), V('z').next(), let('t', V('z').current()),
          V('z').next(), V('t'), V('z').current(), eq(V('t'), V('z').current()))
    refuse('iter zip non iter', L(1).iter().zip([1]))
    refuse('iter zip nil', L(1).iter().zip(None))
    refuse('iter chain non iter', L(1).iter().chain(1))
    refuse('iter chain string', L(1).iter().chain('ab'))
    probe('iter chain', L(1, 2).iter().chain(L(3).iter()).list(), L(1).iter().chain().list(),
          L().iter().chain(L().iter(), L(1).iter(), L().iter(), L(2).iter()).list(),
          L(1, 2).iter().chain(L(3).iter()).len(), L(1, 2).iter().chain(X('ab').iter()).len(),
          L(1).iter().chain(X('ab').iter()).list())
    probe('iter chain state', let('a', L(1).iter()), let('b', L(2).iter()), let('c', V('a').chain(V('b'))), V('c').current(),
          V('c').next(), V('c').current(), V('c').next(), V('c').current(), V('a').current(), V('c').next(),
          V('c').current(), V('b').current(), V('c').next())
    probe('iter chain same iterator', let('a', L(1, 2).iter()), V('a').chain(V('a')).list(), V('a').chain(V('a')).len())
    probe('iter chain does not revisit', let('l', [1]), let('a', V('l').iter()), let('b', L(2).iter()),
          let('c', V('a').chain(V('b'))), V('c').next(), V('c').next(), V('l').push(5), V('c').next(), V('c').current(),
          V('a').next(), V('a').current())
    probe('iter into', L(1, 2).iter().into(lam('i', V('i').list())), L(1, 2).iter().into(V('List').collect),
          L(1, 2).iter().into(V('Tuple').collect), L(1).iter().into(lam('i', 5)), L(1).iter().into(lam('', 5)),
          L(1).iter().into(1), L(1).iter().into(), L().iter().into(lam('i', V('i').len())))
    probe('iter list', L(1, 2).iter().list(), X('ab').iter().list(), L().iter().filter(lam('x', True)).list(),
          let('i', L(1, 2).iter()), V('i').list(), V('i').list(), V('i').current())
    probe('iter iter', let('i', L(1, 2).iter()), eq(V('i').iter(), V('i')), V('i').iter().next(), V('i').current(),
          A.For('x', lift(V('i')), [pr('for', V('x'))]), V('i').next())
    probe('iter for resumes', let('i', L(1, 2, 3).iter()), V('i').next(), A.For('x', lift(V('i')), [pr(V('x')), A.Break()]),
          V('i').current(), V('i').list())
    probe('iter shared source interleave', let('s', L(1, 2, 3, 4, 5, 6).iter()), let('a', V('s').map(lam('x', V('x') * 10))),
          let('b', V('s').filter(lam('x', True))), V('a').next(), V('b').next(), V('a').next(), V('a').current(),
          V('b').current(), V('s').current(), V('b').list(), V('a').next(), V('a').current())
    probe('iter callback raises', L(1, 2, 3).iter().map(blk('x', ife(eq(V('x'), 2), [rz('ValueError', 'two')]), pr('ok', V('x')),
                                                         ret(V('x')))).list(), msg=True)
    for meth, args in [('each', []), ('map', []), ('filter', []), ('all', []), ('any', [])]:
        probe('iter %s callback raises state' % meth, let('s', L(1, 2, 3).iter()),
              let('f', blk('x', ife(eq(V('x'), 2), [rz('KeyError', 'two')]), ret(True))),
              getattr(V('s'), meth)(V('f'), *args) if meth in ('each', 'all', 'any')
              else getattr(V('s'), meth)(V('f')).list(),
              V('s').current(), V('s').next(), V('s').current(), msg=True)
    probe('iter map current after raise', let('m', L(1, 2, 3).iter().map(blk('x', ife(eq(V('x'), 2), [rz('KeyError', 'two')]),
                                                                         ret(V('x') * 10)))),
          V('m').next(), V('m').current(), V('m').next(), V('m').current(), V('m').next(), V('m').current(), msg=True)
    probe('iter take over raising map', let('m', L(1, 2, 3).iter().map(blk('x', ife(eq(V('x'), 2), [rz('KeyError', 'two')]),
                                                                       ret(V('x') * 10)))),
          let('t', V('m').take(5)), V('t').next(), V('t').current(), V('t').next(), V('t').current(), V('t').next(),
          V('t').current(), msg=True)
    probe('iter reduce raises', L(1, 2).iter().reduce(0, blk('a x', rz('TypeError', 'red'))), msg=True)
    probe('iter uncaught callback error', A.ExprS(lift(L(1).iter().each(blk('x', rz('KeyError', 'each'))))))
    probe('iter callbacks kinds', L(1).iter().map(V('print')).list(), L('a').iter().map(X('b').has).list(),
          L(1).iter().map(V('Number')).list(), L(1).iter().map(None), L(1).iter().filter(1), L(1).iter().each('s'),
          L(1).iter().all([]), L(1).iter().any(True), L(1).iter().map(), L(1).iter().map(lam('x', 1), 2))
    probe('iter callback wrong arity', L(1).iter().map(lam('', 1)).list(), L(1).iter().map(lam('a b', 1)).list(),
          L().iter().map(lam('', 1)).list(), L(1).iter().filter(lam('', 1)).list(), L(1).iter().each(lam('a b', 1)))
    probe('iter callback is class method', A.Class('C', None, A.Fn('init', [], [assign(A.At('k'), 3)]),
                                                   [fn('mul', 'x', ret(V('x') * E(A.At('k'))))]),
          L(1, 2).iter().map(V('C')().mul).list())
    probe('iter callback native bound', let('out', []), L(1, 2).iter().each(V('out').push), V('out'))
    probe('iter str names', L().iter().str(), T().iter().str(), M().iter().str(), X('').iter().str(), X('').split('').str(),
          X(1).times().str(), X(1).until(2).str(), L().iter().map(cb).str(), L().iter().filter(cb).str(),
          L().iter().take(1).str(), L().iter().skip(1).str(), L().iter().zip().str(), L().iter().chain().str())
    probe('iter cls', L().iter().cls().name(), eq(L().iter().cls(), V('Iter')), L().iter().m('isA?')(V('Iter')),
          X(1).times().m('isA?')(V('Iter')), L().iter().m('isA?')(V('List')), V('Iter').name())
    probe('iter equals', let('i', L().iter()), V('i').equals(V('i')), V('i').equals(L().iter()), eq(V('i'), V('i')))
    probe('iter no method', L().iter().foo(), L().iter().push(1), L().iter().count(), L().iter().collect())
    probe('iter arity', L().iter().next(1), L().iter().current(1), L().iter().len(1), L().iter().list(1), L().iter().first(1),
          L().iter().last(1), L().iter().iter(1), L().iter().str(1), L().iter().take(), L().iter().take(1, 2),
          L().iter().skip(), L().iter().take('1'), L().iter().skip(None))
    probe('times iter', let('t', X(2).times()), V('t').current(), V('t').next(), V('t').current(), V('t').next(),
          V('t').current(), V('t').next(), V('t').current(), V('t').len(), let('z', X(0).times()), V('z').next(),
          V('z').current(), V('z').len())
    probe('times for', A.For('i', lift(X(3).times()), [pr(V('i'))]), A.For('i', lift(X(0).times()), [pr(V('i'))]))
    probe('for non iterable', A.For('i', lift(5), [pr(V('i'))]))
    probe('for nil', A.For('i', lift(None), [pr(V('i'))]))
    probe('for bool', guarded([A.For('i', lift(True), [pr(V('i'))])]))
    probe('for fn', fn('f', ''), guarded([A.For('i', lift(V('f')), [pr(V('i'))])]))
    probe('for user iter returning builtin', A.Class('C', None, None, [fn('iter', '', pr('iter called'), ret(L(1, 2).iter()))]),
          A.For('x', lift(V('C')()), [pr(V('x'))]))
    probe('for user protocol', A.Class('R', None, A.Fn('init', ['n'], [assign(A.At('n'), V('n')), assign(A.At('i'), 0)]),
                                       [fn('iter', '', ret(A.Self())),
                                        fn('next', '', pr('next'), assign(A.At('i'), E(A.At('i')) + 1),
                                           ret(E(A.At('i')) <= E(A.At('n')))),
                                        fn('current', '', pr('current'), ret(E(A.At('i')) * 100))]),
          A.For('x', lift(V('R')(2)), [pr('body', V('x'))]))
    probe('for user protocol truthy', A.Class('R', None, A.Fn('init', [], [assign(A.At('i'), 0)]),
                                              [fn('iter', '', ret(A.Self())),
                                               fn('next', '', assign(A.At('i'), E(A.At('i')) + 1),
                                                  ret(E(A.Tern(lift(E(A.At('i')) < 3), lift('yes'), A.Nil())))),
                                               fn('current', '', ret(E(A.At('i'))))]),
          A.For('x', lift(V('R')()), [pr('body', V('x'))]))
    probe('for user iter missing next', A.Class('R', None, None, [fn('iter', '', ret(A.Self()))]),
          guarded([A.For('x', lift(V('R')()), [pr('body', V('x'))])]))
    probe('for user iter returns number', A.Class('R', None, None, [fn('iter', '', ret(5))]),
          guarded([A.For('x', lift(V('R')()), [pr('body', V('x'))])]))
    probe('for user iter missing current', A.Class('R', None, None, [fn('iter', '', ret(A.Self())), fn('next', '', ret(True))]),
          guarded([A.For('x', lift(V('R')()), [pr('body', V('x'))])]))
    probe('for no iter method', A.Class('R', None, None, []), guarded([A.For('x', lift(V('R')()), [pr('body', V('x'))])]))
    refuse('user iterator handed to zip', A.Class('R', None, None, [fn('next', '', ret(False)), fn('current', '', ret(1))]),
           L(1).iter().zip(V('R')()))
    probe('huge size hints', X(1e300).times().take(2).list(), X(1e300).times().take(2).len(), X(1e300).times().skip(1).len(),
          X(1e300).times().zip(L(1).iter()).len(), X(1e19).times().map(lam('x', V('x'))).len())
    refuse('huge collect', X(1e300).times().list())
    refuse('chain hint overflow', X(1e300).times().chain(X(1e300).times()).len())


def callable_probes():
    probe('fn name len', fn('f', 'a b', ret(V('a'))), V('f').name(), V('f').len(), V('f').call(1, 2), V('f').call(1),
          V('f').call(1, 2, 3), V('f').call(), fn('g', ''), V('g').len(), V('g').call(), V('g').name())
    probe('lambda len call', let('l', lam('x y z', V('x'))), V('l').len(), V('l').call(1, 2, 3), lam('', 7).call(),
          lam('', 7).len(), lam('x', V('x')).call([1]))
    probe('lambda names', lam('x', 1).name(), let('g', lam('x', 1)), V('g').name(), let('h', V('g')), V('h').name(),
          let('a', blk('x', let('b', 1), let('c', lam('y', V('y'))), fn('inner', '', ret(lam('z', V('z')))),
                       A.Class('K', None, None, [fn('mm', '', ret(lam('w', V('w'))))]),
                       ret(L(lam('q', V('q')).name(), V('c').name(), V('inner')().name(), V('K')().mm().name(),
                             V('inner').name())))),
          V('a')(1), V('a').name(), fn('top', '', ret(lam('x', V('x')))), V('top')().name(),
          let('d', L(1).iter().map(lam('x', lam('y', V('y')).name())).list()), V('d'),
          let('e'), assign(V('e'), lam('x', V('x'))), V('e').name(),
          let('m', {'k': lam('x', V('x')), 'j': [lam('x', V('x'))]}), V('m')['k'].name(), V('m')['j'][0].name(),
          A.For('i', lift(L(lam('x', V('x')))), [pr(V('i').name())]),
          L(1).iter().map(lam('x', V('x'))).into(lam('i', 1)), L(lam('x', 1)).iter().map(lam('f', V('f').name())).list())
    refuse('fn cls', fn('f', ''), V('f').cls())
    refuse('fn str', fn('f', ''), V('f').str())
    probe('fn equals', fn('f', ''), fn('g', ''), V('f').equals(V('f')), V('f').equals(V('g')), eq(V('f'), V('f')),
          V('f').m('isA?')(V('Object')), V('f').m('isA?')(V('Number')), V('f').m('isA?')(V('Method')))
    refuse('fn isA? Fun', fn('f', ''), V('f').m('isA?')(V('Fun')))
    probe('fn no method', fn('f', ''), V('f').foo(), V('f').size(), V('f').arity)
    probe('fn call raises', fn('f', 'x', rz('ValueError', 'inside')), V('f').call(1), msg=True)
    probe('fn call nested', fn('f', 'x', ret(V('x') + 1)), V('f').call.call(1), V('f').call.name(), V('f').call.call.call(2))
    probe('closure captures', fn('mk', 'n', ret(lam('x', V('x') + V('n')))), let('c', V('mk')(5)), V('c').call(1), V('c').len(),
          L(1, 2).iter().map(V('c')).list())
    probe('native name call', V('print').name(), V('print').call('via call', 1), V('print').call(),
          V('print').equals(V('print')), V('print').cls().name(), V('print').m('isA?')(V('Native')),
          V('print').m('isA?')(V('Object')), V('print').len(), V('assert').name(), V('assert').call(True),
          V('assert').call(), V('assert').call(1))
    probe('method name call', let('a', [1]), let('p', V('a').push), V('p').name(), V('p').call(2, 3), V('a'), V('p')(4), V('a'),
          V('p').cls().name(), V('p').m('isA?')(V('Method')), V('p').equals(V('p')), V('p').equals(V('a').push),
          V('p').len(), V('a').len.call(), V('a').len.call(1), L(1, 2, 3).slice.call(1),
          X('abc').slice.name(), V('a').has.call(4))
    probe('user method', A.Class('C', None, A.Fn('init', [], [assign(A.At('v'), 9)]),
                                 [fn('get', '', ret(E(A.At('v')))), fn('add', 'x', ret(E(A.At('v')) + V('x')))],
                                 [fn('make', '', ret(1))]),
          let('c', V('C')()), V('c').get.name(), V('c').get.call(), V('c').add.call(1), V('c').add.call(), V('c').get.cls().name(),
          let('m', V('c').add), V('m')(5), V('m').call(6), V('C').make.name(), V('C').make.call(), V('C').make(),
          V('C').make.cls().name(), V('m').equals(V('m')), V('c').add.equals(V('c').add), V('m').len())
    refuse('method str', L().push.str())
    probe('class methods', A.Class('A', None, None, []), A.Class('B', 'A', None, []), V('A').name(), V('B').name(),
          V('B').superCls().name(), V('A').superCls().name(), V('A').superCls().superCls(), eq(V('B').superCls(), V('A')),
          V('Object').name(), V('Object').superCls(), V('Error').name(), V('ValueError').superCls().name(),
          V('A').equals(V('A')), V('A').equals(V('B')), V('A').m('isA?')(V('Object')), V('A').m('isA?')(V('Class')),
          V('A').m('isA?')(V('A')), V('B').m('isA?')(V('A')), V('Number').m('isA?')(V('Class')),
          V('Number').m('isA?')(V('Number')), V('A').name(1), V('A').foo(), V('A').superCls(1))
    probe('builtin class objects', *[V(n).name() for n in lynative.BUILTIN_CLASS_NAMES],
          *[V(n).superCls().name() for n in lynative.BUILTIN_CLASS_NAMES])
    refuse('class cls', V('Number').cls())
    refuse('class str', V('Number').str())
    refuse('user class str', A.Class('A', None, None, []), V('A').str())
    probe('instance object methods', A.Class('A', None, None, []), A.Class('B', 'A', None, []), let('a', V('A')()),
          let('b', V('B')()), V('a').equals(V('a')), V('a').equals(V('A')()), V('a').cls().name(), eq(V('b').cls(), V('B')),
          V('b').m('isA?')(V('A')), V('b').m('isA?')(V('B')), V('a').m('isA?')(V('B')), V('a').m('isA?')(V('Object')),
          V('a').m('isA?')(V('Error')), V('a').equals(), V('a').cls(1), V('a').foo(), V('a').equals.name(),
          V('a').cls.call().name())
    probe('super object methods', A.Class('A', None, None, [fn('eq', 'o', ret(E(A.Super('equals'))(V('o')))),
                                                            fn('kls', '', ret(E(A.Super('cls'))().name())),
                                                            fn('isa', 'c', ret(E(A.Super('isA?'))(V('c')))),
                                                            fn('equals', 'o', ret('overridden'))]),
          A.Class('B', 'A', None, [fn('eq2', 'o', ret(E(A.Super('equals'))(V('o'))))]),
          let('a', V('A')()), V('a').eq(V('a')), V('a').eq(1), V('a').kls(), V('a').isa(V('A')), V('a').isa(V('Error')),
          V('a').equals(V('a')), V('B')().eq2(1), V('B')().kls(),
          A.Class('E2', 'ValueError', None, [fn('k', '', ret(E(A.Super('cls'))().name()))]), V('E2')('m').k())
    refuse('super str', A.Class('A', None, None, [fn('s', '', ret(E(A.Super('str'))()))]), V('A')().s())
    refuse('instance str', A.Class('A', None, None, []), V('A')().str())
    probe('instance user str', A.Class('A', None, None, [fn('str', '', ret('custom'))]), V('A')().str(), L(V('A')()).str())
    probe('error instance methods', let('e', V('ValueError')('m')), V('e').cls().name(), V('e').m('isA?')(V('Error')),
          V('e').m('isA?')(V('ValueError')), V('e').m('isA?')(V('KeyError')), V('e').message, V('e').equals(V('e')))
    refuse('isA? instance arg', A.Class('A', None, None, []), V('A')().m('isA?')(V('A')()))
    refuse('construct builtin', V('List')())
    probe('Number statics as values', let('p', V('Number').parse), V('p')('12'), V('p').name(), V('p').call('3'),
          L('1', '2').iter().map(V('Number').parse).list(), V('Number').parse(), V('Number').parse(1), V('Number').cmp(1),
          V('Number').cmp('a', 1), V('Number').cmp(1, None), V('Number').foo(), X(1).parse('1'), X(1).cmp(1, 2))


def kind_arity_probes():
    """Wrong argument counts and kinds for every native, generated from a table
    of valid calls: drop the last argument, add one, and replace each argument
    by values of every kind.  The model may refuse (unchecked casts in the VM)
    but whenever it answers it must agree."""
    f1 = lam('x', V('x'))
    table = [
        ('num', lambda: X(3), [('str', []), ('floor', []), ('ceil', []), ('round', []), ('times', []), ('until', [5]),
                               ('until', [5, 2]), ('equals', [3]), ('cls', []), ('isA?', [V('Number')])]),
        ('Number', lambda: V('Number'), [('parse', ['1']), ('cmp', [1, 2]), ('name', []), ('superCls', [])]),
        ('str', lambda: X('abc'), [('[]', None), ('str', []), ('len', []), ('has', ['a']), ('upCase', []), ('downCase', []),
                                   ('split', ['b']), ('trim', []), ('trimStart', []), ('trimEnd', []), ('slice', [1]),
                                   ('slice', [0, 1]), ('iter', []), ('equals', ['abc'])]),
        ('list', lambda: L(1, 2, 3), [('len', []), ('push', [1]), ('pop', []), ('remove', [0]), ('index', [1]),
                                      ('insert', [0, 9]), ('str', []), ('slice', [1]), ('slice', [0, 1]), ('clear', []),
                                      ('has', [1]), ('iter', []), ('rev', []), ('sort', [lam('a b', V('a') - V('b'))])]),
        ('List', lambda: V('List'), [('collect', [L(1).iter()])]),
        ('Tuple', lambda: V('Tuple'), [('collect', [L(1).iter()])]),
        ('tuple', lambda: T(1, 2, 3), [('len', []), ('index', [1]), ('str', []), ('slice', [1]), ('slice', [0, 1]), ('has', [1]),
                                       ('iter', [])]),
        ('map', lambda: M({1: 2}), [('len', []), ('str', []), ('has', [1]), ('get', [1]), ('set', [1, 2]), ('insert', [1, 2]),
                                    ('remove', [1]), ('iter', [])]),
        ('iter', lambda: L(1, 2, 3).iter(), [('str', []), ('next', []), ('current', []), ('iter', []), ('first', []),
                                             ('last', []), ('take', [1]), ('skip', [1]), ('map', [f1]), ('filter', [f1]),
                                             ('reduce', [0, lam('a x', V('a'))]), ('len', []), ('each', [f1]), ('zip', [L(1).iter()]),
                                             ('chain', [L(1).iter()]), ('all', [f1]), ('any', [f1]), ('list', []),
                                             ('into', [lam('i', 1)])]),
        ('fn', lambda: f1, [('len', []), ('call', [1])]),
        ('native', lambda: V('print'), [('name', []), ('call', [1])]),
        ('method', lambda: L(1).has, [('name', []), ('call', [1])]),
        ('bool', lambda: X(True), [('str', []), ('equals', [True])]),
        ('nil', lambda: X(None), [('str', []), ('equals', [None])]),
        ('class', lambda: V('Error'), [('name', []), ('superCls', []), ('equals', [1])]),
    ]
    subs = [('nil', None), ('bool', True), ('num', 1), ('numf', 1.5), ('str', 's'), ('list', []), ('tuple', ()), ('map', {}),
            ('lambda', lam('x', V('x'))), ('lambda0', lam('', 1)), ('native', V('print')), ('method', L().len), ('class', V('Number')),
            ('iter', L().iter())]
    for tname, recv, meths in table:
        for meth, args in meths:
            if args is None:
                continue
            base = '%s.%s/%d' % (tname, meth, len(args))
            call = lambda a: recv().m(meth)(*a)
            if args:
                auto(base + ' drop last', call(args[:-1]))
            auto(base + ' extra nil', call(args + [None]))
            auto(base + ' extra two', call(args + [1, 2]))
            for i in range(len(args)):
                for sname, sv in subs:
                    auto('%s arg%d=%s' % (base, i, sname), call(args[:i] + [sv] + args[i + 1:]))
    # the index operators with odd index kinds
    for sname, sv in subs:
        auto('list[%s]' % sname, L(1, 2)[sv])
        auto('tuple[%s]' % sname, T(1, 2)[sv])
        auto('str[%s]' % sname, X('ab')[sv])
        auto('map[%s]' % sname, M({1: 2})[sv])
        auto('list[%s]=' % sname, let('a', [1, 2]), E(A.Assign(A.Index(A.Var('a'), lift(sv)), lift(0))), V('a'))
        auto('map[%s]=' % sname, let('a', {}), E(A.Assign(A.Index(A.Var('a'), lift(sv)), lift(0))), V('a').len())


def case_mapping_probes():
    """upCase/downCase over every code point of the ranges case_safe accepts,
    a few hundred code points per program"""
    ranges = [(0x20, 0x180), (0x370, 0x3d0), (0x400, 0x460), (0x2000, 0x2070), (0x3000, 0x3100), (0x4e00, 0x4e80),
              (0x9fc0, 0xa000),
              (0x1f300, 0x1f650)]
    ranges += [(c, c + 1) for c in range(0x4e80, 0x9fc0, 37)]
    cps = []
    for lo, hi in ranges:
        for c in range(lo, hi):
            ch = chr(c)
            if ch in '"\\$' or c == 0x7f or not lynative.case_safe(ch):
                continue
            cps.append(ch)
    for i in range(0, len(cps), 64):
        chunk = cps[i:i + 64]
        items = []
        for ch in chunk:
            items.append(pr(X(ch).upCase(), X(ch).downCase(), X('a' + ch + 'b').upCase(), X('A' + ch + ' ').downCase()))
        probe('case mapping U+%04X..' % ord(chunk[0]), *items)
    ws = [chr(c) for c in list(range(1, 0x21)) + [0x85, 0xa0, 0x1680, 0x180e] + list(range(0x2000, 0x2010)) +
          [0x2028, 0x2029, 0x202f, 0x205f, 0x2060, 0x3000, 0xfeff] if chr(c) not in '"\\$\r']
    items = [pr(X(c + 'x' + c).trim().len(), X(c + 'x' + c).trimStart().len(), X(c + 'x' + c).trimEnd().len()) for c in ws]
    probe('trim white space table', *items)


def parse_fuzz_probes():
    rnd = random.Random(12345)
    alphabet = '0123456789' * 3 + '+-..eE' * 2 + 'infatyINFNA_x '
    strs = set()
    while len(strs) < 400:
        n = rnd.randrange(1, 7)
        strs.add(''.join(rnd.choice(alphabet) for _ in range(n)))
    strs = sorted(strs)
    for i in range(0, len(strs), 40):
        chunk = strs[i:i + 40]
        items = []
        for s in chunk:
            items.append(guarded([pr(s, V('Number').parse(s))]))
        probe('Number.parse fuzz %d' % i, *items)


def pipeline_fuzz_probes(count=1000, seed=20260926):
    """Random iterator pipelines: a pool of iterator variables built from random
    sources and adaptors (sharing sources), observed and advanced in random
    order, with callbacks that print, alternate and raise on their k-th call,
    and a shared source list that is mutated in between."""
    rnd = random.Random(seed)
    for pi in range(count):
        items = [
            let('lst', [rnd.randrange(10) for _ in range(rnd.choice([0, 1, 3, 5, 6, 8, 9]))]),
            let('cnt', 0),
            let('boomAt', rnd.choice([2, 3, 5, 8, 100, 100])),
            fn('cb', 'x', pr('cb', V('x')), ret(L(V('x')))),
            fn('pred', 'x', assign(V('cnt'), V('cnt') + 1), pr('pred', V('x'), V('cnt')),
               ret(eq(V('cnt') - (V('cnt') / 2).floor() * 2, rnd.choice([0, 1])))),
            fn('boom', 'x', assign(V('boomAt'), V('boomAt') - 1),
               ife(eq(V('boomAt'), 0), [rz('ValueError', 'boom')]), pr('boom ok', V('x')), ret(V('x'))),
            fn('truthy', 'x', ret(True)),
        ]
        names = []

        def source():
            k = rnd.randrange(9)
            if k <= 2:
                return V('lst').iter()
            if k == 3:
                return X(rnd.choice([0, 1, 4, 7, 9])).times()
            if k == 4:
                return X(rnd.choice([0, 1, -2])).until(rnd.choice([0, 3, 6]), rnd.choice([1, 2, 0.5]))
            if k == 5:
                return X(rnd.choice(['', 'a', 'héé', 'a😀b', 'abcdefgh'])).iter()
            if k == 6:
                return X(rnd.choice(['', 'a,b', ',a,,', 'a,b,c,d,e,f'])).split(rnd.choice([',', ',', '', 'a']))
            if k == 7:
                return T(*[rnd.randrange(5) for _ in range(rnd.randrange(0, 7))]).iter()
            return M(rnd.choice([{}, {'k': 1}])).iter()

        def new_iter(e):
            name = 'i%d' % len(names)
            names.append(name)
            # creation may raise (take/skip arguments): keep the variable defined
            items.append(let(name, L().iter()))
            items.append(guarded([assign(V(name), e)]))

        for _ in range(rnd.randrange(1, 4)):
            new_iter(source())
        nops = rnd.randrange(8, 24)
        build = rnd.randrange(1, 6)
        drainy = rnd.random() < 0.3
        for step in range(nops):
            k = rnd.randrange(100)
            if step < build:
                k = rnd.randrange(30)
            elif k >= 66 and not drainy and rnd.random() < 0.7:
                k = rnd.randrange(30, 66)
            v = V(rnd.choice(names[-3:] if rnd.random() < 0.6 else names))
            if k < 30:
                a = rnd.randrange(8)
                if a == 0:
                    e = v.map(V(rnd.choice(['cb', 'cb', 'boom'])))
                elif a == 1:
                    e = v.filter(V(rnd.choice(['pred', 'pred', 'truthy', 'boom'])))
                elif a == 2:
                    e = v.take(rnd.choice([0, 1, 2, 3, 10, -1, 1.5]))
                elif a == 3:
                    e = v.skip(rnd.choice([0, 1, 2, 3, 10, -1, 1.5]))
                elif a == 4:
                    e = v.zip(*[V(rnd.choice(names)) for _ in range(rnd.randrange(0, 3))])
                elif a == 5:
                    e = v.chain(*[V(rnd.choice(names)) for _ in range(rnd.randrange(0, 3))])
                elif a == 6:
                    e = source()
                else:
                    e = v.iter()
                new_iter(e)
            elif k < 45:
                items.append(v.next())
            elif k < 58:
                items.append(v.current())
            elif k < 66:
                items.append(v.len())
            elif k < 72:
                items.append(v.list())
            elif k < 76:
                items.append(v.first())
            elif k < 79:
                items.append(v.last())
            elif k < 82:
                items.append(v.str())
            elif k < 85:
                items.append(v.reduce(0, blk('a x', pr('red', V('a'), V('x')), ret(V('a') + 1))))
            elif k < 87:
                items.append(v.all(V(rnd.choice(['pred', 'boom']))))
            elif k < 89:
                items.append(v.any(V(rnd.choice(['pred', 'boom']))))
            elif k < 91:
                items.append(v.each(V(rnd.choice(['cb', 'boom']))))
            elif k < 93:
                items.append(v.into(lam('i', V('i').next())))
            elif k < 95:
                items.append(guarded([A.For('x', lift(v), [pr('for', V('x')), ife(eq(V('cnt'), rnd.randrange(4)), [A.Break()])])]))
            elif k < 96:
                items.append(V('Tuple').collect(v))
            elif k < 97:
                items.append(V('List').collect(v))
            else:
                m = rnd.randrange(4)
                if m == 0:
                    items.append(V('lst').push(rnd.randrange(10), rnd.randrange(10)))
                elif m == 1:
                    items.append(V('lst').pop())
                elif m == 2:
                    items.append(V('lst').clear())
                else:
                    items.append(V('lst').insert(0, 's'))
        for name in names:
            items.append(V(name).current())
        probe('pipeline fuzz %d' % pi, *items, msg=True)


def collection_fuzz_probes(count=500, seed=4242):
    """Random operation sequences on one list, one map (at most one entry is
    ever printed or iterated), one string and one tuple, arguments drawn from a
    pool with boundary and invalid indices."""
    rnd = random.Random(seed)
    idx = [0, 1, 2, 3, 5, -1, -2, -3, -6, 0.5, -0.0, NAN, INF, -INF, 1e19, -1e19, 7, 4]
    vals = [0, 1, 2.5, 's', '', None, True, False, NAN, -0.0, 'ab']
    strs = ['', 'abc', 'héé', 'a😀b', '日本語x', ' pad ', 'a,b,,c', 'MiXeD ÀÉ']
    for pi in range(count):
        items = [let('a', [rnd.choice(vals) for _ in range(rnd.randrange(0, 6))]),
                 let('m', {}), let('s', rnd.choice(strs)),
                 let('t', tuple(rnd.choice(vals) for _ in range(rnd.randrange(0, 5))))]
        keys = [1, 's', None, True, 0, -0.0, 0.5, '']
        for _ in range(rnd.randrange(6, 18)):
            k = rnd.randrange(36)
            i, j, v = rnd.choice(idx), rnd.choice(idx), rnd.choice(vals)
            a, m, sv, t = V('a'), V('m'), V('s'), V('t')
            if k == 0:
                items += [a.push(*[rnd.choice(vals) for _ in range(rnd.randrange(0, 4))]), a]
            elif k == 1:
                items += [a.pop(), a]
            elif k == 2:
                items += [a.insert(i, v), a]
            elif k == 3:
                items += [a.remove(i), a]
            elif k == 4:
                items += [a[i]]
            elif k == 5:
                items += [E(A.Assign(A.Index(A.Var('a'), lift(i)), lift(v))), a]
            elif k == 6:
                items += [a.slice(i, j), a.slice(i)]
            elif k == 7:
                items += [a.has(v), a.index(v), a.len()]
            elif k == 8:
                items += [a.rev(), a]
            elif k == 9:
                items += [a.clear(), a] if rnd.random() < 0.3 else [a.iter().list(), a.str()]
            elif k == 10:
                items += [a.iter().skip(i).len(), a.iter().take(i).list()]
            elif k == 11:
                items += [t[i], t.slice(i, j), t.slice(i)]
            elif k == 12:
                items += [t.has(v), t.index(v), t.len(), t.str(), t.iter().list()]
            elif k == 13:
                items += [V('Tuple').collect(a.iter()), V('List').collect(t.iter())]
            elif k == 14:
                items += [sv[i], sv.slice(i, j), sv.slice(i)]
            elif k == 15:
                items += [sv.len(), sv.upCase(), sv.downCase(), sv.trim(), sv.trimStart(), sv.trimEnd()]
            elif k == 16:
                sep = rnd.choice([',', '', 'b', 'é', ' ', 'abc'])
                items += [sv.split(sep).list(), sv.has(sep), sv.iter().len()]
            elif k == 17:
                key = rnd.choice(keys)
                # keep the map at one entry at most: clear it first when the key is new
                items += [guarded([ife(no(m.has(key)), [A.For('kv', lift(m.iter().list()), [st(m.remove(V('kv')[0]))])])]),
                          m.set(key, v), m, m.len()]
            elif k == 18:
                key = rnd.choice(keys)
                items += [m[key], m.get(key), m.has(key)]
            elif k == 19:
                key = rnd.choice(keys)
                items += [m.remove(key), m, m.len()]
            elif k == 20:
                key = rnd.choice(keys)
                items += [guarded([ife(no(m.has(key)), [A.For('kv', lift(m.iter().list()), [st(m.remove(V('kv')[0]))])])]),
                          m.insert(key, v), E(A.Assign(A.Index(A.Var('m'), lift(key)), lift(v))), m.str()]
            elif k == 21:
                items += [m.iter().list(), m.iter().len(), m.iter().first()]
            elif k == 22:
                items += [L(*[rnd.randrange(-5, 6) for _ in range(rnd.randrange(0, 9))]).sort(
                    rnd.choice([V('Number').cmp, lam('x y', V('y') - V('x')),
                                lam('x y', (V('x') / 2).floor() - (V('y') / 2).floor())]))]
            elif k == 23:
                n = rnd.choice([0, 1, 2.5, -2.5, 0.5, -0.5, 1.5, 1e15 + 0.5, -7.49, 3.999999999999999])
                items += [X(n).floor(), X(n).ceil(), X(n).round(), X(n).str()]
            elif k == 24:
                items += [X(i).times().len(), X(i).until(j + 0, 1).take(3).list() if j == j and abs(j) < 100 and i == i and abs(i) < 100 else X(1).until(2).list()]
            elif k == 25:
                items += [a.equals(a), a.equals(t), t.equals(t), m.equals(m), sv.equals(sv), sv.equals(rnd.choice(strs))]
            elif k == 26:
                items += [a.cls().name(), t.cls().name(), m.cls().name(), sv.cls().name(), a.iter().cls().name()]
            elif k == 27:
                items += [a.push.call(v), a, a.len.call(), sv.len.call(), a.slice.call(i)]
            elif k == 28:
                items += [a.iter().zip(t.iter()).list(), a.iter().chain(t.iter(), sv.iter()).len()]
            elif k == 29:
                items += [a.iter().reduce(0, lam('x y', V('x') + 1)), t.iter().map(lam('x', L(V('x')))).list()]
            elif k == 30:
                items += [a.iter().filter(lam('x', V('x'))).list(), t.iter().all(lam('x', V('x'))), t.iter().any(lam('x', V('x')))]
            elif k == 31:
                items += [guarded([assign(V('a'), a.slice(i, j))]), a]
            elif k == 32:
                items += [guarded([assign(V('s'), sv.slice(i, j))]), sv] if rnd.random() < 0.3 else [assign(V('s'), rnd.choice(strs))]
            elif k == 33:
                items += [guarded([assign(V('t'), V('Tuple').collect(a.iter()))]), t]
            elif k == 34:
                items += [E(A.OpAssign(A.Index(A.Var('a'), lift(i)), '+', lift(1))), a]
            else:
                items += [a.iter().last(), a.iter().first(), sv.iter().last(), t.iter().last()]
        probe('collection fuzz %d' % pi, *items)


def build_probes():
    index_probes()
    number_probes()
    string_probes()
    bool_nil_probes()
    list_probes()
    sort_probes()
    tuple_probes()
    map_probes()
    iter_probes()
    callable_probes()
    kind_arity_probes()
    case_mapping_probes()
    parse_fuzz_probes()
    pipeline_fuzz_probes()
    collection_fuzz_probes()


# ---------------------------------------------------------------------------
# running


LAST_ERR = re.compile(r'^([A-Za-z]+): ')


def run_real(src, workdir, idx):
    path = os.path.join(workdir, 'p%05d.lay' % idx)
    with open(path, 'w', encoding='utf-8') as f:
        f.write(src)
    try:
        r = subprocess.run([LYRUN, path], stdout=subprocess.PIPE, stderr=subprocess.PIPE, timeout=60)
    except subprocess.TimeoutExpired:
        return {'out': [], 'outcome': 'timeout', 'cls': None, 'stderr': ''}
    out = r.stdout.decode('utf-8', 'replace').split('\n')
    if out and out[-1] == '':
        out.pop()
    err = r.stderr.decode('utf-8', 'replace')
    lines = [l for l in err.split('\n') if l and not l.startswith('VERIF-STATS')]
    has_stats = 'VERIF-STATS' in err
    if r.returncode == 0 and has_stats:
        return {'out': out, 'outcome': 'ok', 'cls': None, 'stderr': err}
    if has_stats and lines and lines[0].startswith('Traceback'):
        m = LAST_ERR.match(lines[-1])
        return {'out': out, 'outcome': 'error', 'cls': m.group(1) if m else '?', 'stderr': err}
    return {'out': out, 'outcome': 'crash(%s)' % r.returncode, 'cls': None, 'stderr': err}


def run_model(stmts, annotate=True):
    if annotate:
        lynative.annotate_lambda_names(stmts)
    it = lyref.Interp(main_path='main.lay')
    try:
        outcome, info = it.run(stmts)
    except lyref.Refuse as e:
        return {'out': it.out, 'outcome': 'refuse', 'cls': None, 'why': str(e)}
    except lyref.StepsEx:
        return {'out': it.out, 'outcome': 'steps', 'cls': None, 'why': 'step budget'}
    if outcome == 'error':
        return {'out': it.out, 'outcome': 'error', 'cls': info['cls']}
    return {'out': it.out, 'outcome': outcome, 'cls': None}


def split_lines(model):
    """one print() may write several physical lines"""
    model['out'] = '\n'.join(model['out']).split('\n') if model['out'] else []
    return model


def main(argv):
    verbose = '-v' in argv
    pat = None
    if '-k' in argv:
        pat = argv[argv.index('-k') + 1]
    if '--fuzz' in argv:
        # extra random pipelines only: --fuzz COUNT [--seed N]
        seed = int(argv[argv.index('--seed') + 1]) if '--seed' in argv else 1
        pipeline_fuzz_probes(int(argv[argv.index('--fuzz') + 1]), seed)
        collection_fuzz_probes(int(argv[argv.index('--fuzz') + 1]), seed)
    else:
        build_probes()
    probes = [p for p in PROBES if pat is None or pat in p.name]
    srcs = [A.to_source(p.stmts) for p in probes]
    workdir = tempfile.mkdtemp(prefix='lynat')
    with concurrent.futures.ThreadPoolExecutor(max_workers=os.cpu_count() or 4) as ex:
        reals = list(ex.map(lambda t: run_real(t[1], workdir, t[0]), enumerate(srcs)))
    if '--keep' in argv:
        print('programs kept in', workdir)
    else:
        import shutil
        shutil.rmtree(workdir, ignore_errors=True)
    passed = refused_ok = refused_auto = 0
    failures = []
    for p, src, real in zip(probes, srcs, reals):
        try:
            model = split_lines(run_model(p.stmts))
        except RecursionError:
            model = {'out': [], 'outcome': 'python-recursion', 'cls': None}
        except Exception as e:      # a bug in the model is a failure, not a crash of the tester
            import traceback
            model = {'out': [], 'outcome': 'python-exception', 'cls': None, 'why': traceback.format_exc()}
        status = None
        if model['outcome'] == 'refuse':
            # whatever was printed before the refusal must still agree
            prefix_ok = real['out'][:len(model['out'])] == model['out'] or real['outcome'].startswith('crash')
            if p.mode == 'refuse' and prefix_ok:
                refused_ok += 1
                status = 'refused (expected): ' + model['why']
            elif p.mode == 'any' and prefix_ok:
                refused_auto += 1
                status = 'refused (auto): ' + model['why']
            else:
                failures.append((p, src, real, model, 'unexpected refusal' if prefix_ok else 'output before refusal differs'))
        elif p.mode == 'refuse':
            failures.append((p, src, real, model, 'expected the model to refuse'))
        elif model['out'] == real['out'] and model['outcome'] == real['outcome'] and model['cls'] == real['cls']:
            passed += 1
            status = 'ok'
        else:
            failures.append((p, src, real, model, 'mismatch'))
        if verbose and status:
            print('%-60s %s' % (p.name, status))
    if pat is None and '--fuzz' not in argv:
        # without the optional pre-pass the name of a lambda must be refused
        chk = [A.Let('g', A.Lambda(['x'], A.Var('x'), True)), A.Print([A.Call(A.Prop(A.Var('g'), 'name'), [])])]
        A.to_source(chk)
        if run_model(chk, annotate=False)['outcome'] != 'refuse':
            failures.append((Probe('lambda name without annotate_lambda_names', []), '', {'out': [], 'outcome': '-', 'cls': None,
                                                                                       'stderr': ''},
                             {'out': [], 'outcome': 'answered', 'cls': None}, 'expected the model to refuse'))
        else:
            refused_ok += 1
    for p, src, real, model, why in failures:
        print('=' * 78)
        print('FAIL [%s] %s' % (why, p.name))
        print('--- probe (each expression statement is printed inside try/catch, see -s for the program)')
        for l in p.short:
            print('    ' + l.replace('\n', '\n    '))
        if '-s' in argv:
            print('--- program')
            print(src.rstrip())
        print('--- real   : %s %s' % (real['outcome'], real['cls'] or ''))
        for i, l in enumerate(real['out']):
            print('  %s %s' % (' ' if i < len(model['out']) and model['out'][i] == l else '*', l))
        if real['outcome'] != 'ok':
            tail = [l for l in real['stderr'].split('\n') if l and not l.startswith('VERIF-STATS')]
            for l in tail[:3] + (['    ...'] if len(tail) > 6 else []) + tail[-3:]:
                print('  ! ' + l[:200])
        print('--- model  : %s %s %s' % (model['outcome'], model['cls'] or '', model.get('why', '')))
        for i, l in enumerate(model['out']):
            print('  %s %s' % (' ' if i < len(real['out']) and real['out'][i] == l else '*', l))
    total = passed + refused_ok + refused_auto + len(failures)
    print('-' * 78)
    print('%d probes: %d agree, %d refused as expected, %d refused (generated kind/arity probes), %d FAILED'
          % (total, passed, refused_ok, refused_auto, len(failures)))
    return 1 if failures else 0


if __name__ == '__main__':
    sys.exit(main(sys.argv[1:]))
