"""Random program generator for the core expression / statement grammar
(C01) with hooks reused by the scoping, class and exception generators."""
import random
from lyast import *

NUMS = [0, 1, 2, 3, 5, 7, 10, -1, -2, 0.5, 1.5, 100, 1e3, 0.25, -0.5, 12]
STRS = ['', 'a', 'b', 'ab', 'abc', 'zz', 'A', 'hello', 'x y', 'héé', '10', 'q', 'tab\there', "it's", 'say "hi"',
        'back\\slash', 'two\nlines', '日本', 'a😀']
ARITH = ['+', '-', '*', '/']
CMP = ['<', '<=', '>', '>=']
EQ = ['==', '!=']


class Scope:
    def __init__(self, parent=None, is_fn=False):
        self.vars = {}       # name -> kind guess ('num','str','bool','nil','list','fn:<arity>','any')
        self.parent = parent
        self.is_fn = is_fn

    def all(self):
        out = {}
        s = self
        chain = []
        while s is not None:
            chain.append(s)
            s = s.parent
        for s in reversed(chain):
            out.update(s.vars)
        return out


class Gen:
    def __init__(self, rng, max_depth=4, risky=0.06, features=()):
        self.rng = rng
        self.max_depth = max_depth
        self.risky = risky
        self.n = 0
        self.features = set(features)
        self.scope = Scope()
        self.loop_depth = 0
        self.fn_depth = 0
        self.budget = 120        # statements
        self.in_try_tail = False

    def fresh(self, prefix='v'):
        self.n += 1
        return '%s%d' % (prefix, self.n)

    def vars_of(self, kind):
        return [n for n, k in self.scope.all().items() if k == kind]

    # ---- expressions ------------------------------------------------------
    def expr(self, kind, depth=0):
        r = self.rng
        if depth >= self.max_depth or r.random() < 0.25:
            return self.leaf(kind)
        if r.random() < self.risky:
            kind = r.choice(['num', 'str', 'bool', 'nil', 'list'])
        c = r.random()
        if c < 0.08:
            return Group(self.expr(kind, depth + 1))
        if c < 0.16:
            # ternary
            return Tern(self.expr('bool' if r.random() < 0.7 else 'any', depth + 1),
                        self.expr(kind, depth + 1), self.expr(kind, depth + 1))
        if c < 0.24:
            # logical yielding an operand
            a = self.expr(kind if r.random() < 0.5 else 'any', depth + 1)
            b = self.expr(kind, depth + 1)
            return (And if r.random() < 0.5 else Or)(a, b)
        if c < 0.30:
            vs = self.assignable(kind)
            if vs and kind == 'str':
                # never feed a string variable back into itself: growth must stay bounded
                return Assign(Var(r.choice(vs)), Str(r.choice(STRS)))
            if vs:
                name = r.choice(vs)
                if r.random() < 0.5 or kind not in ('num', 'str'):
                    return Assign(Var(name), self.expr(kind, depth + 1))
                op = r.choice(ARITH) if kind == 'num' else '+'
                return OpAssign(Var(name), op, self.expr(kind, depth + 1))
        if c < 0.36:
            f = self.call_expr(kind, depth)
            if f is not None:
                return f
        if kind == 'num':
            if r.random() < 0.15:
                return Un('-', self.expr('num', depth + 1))
            return Bin(r.choice(ARITH), self.expr('num', depth + 1), self.expr('num', depth + 1))
        if kind == 'str':
            if r.random() < 0.3:
                parts = []
                for _ in range(r.randint(1, 3)):
                    if r.random() < 0.5:
                        parts.append(r.choice(['a', 'b ', '-', 'x']))
                    else:
                        parts.append(self.expr(r.choice(['num', 'str', 'bool', 'nil']), depth + 1))
                return Interp(parts)
            return Bin('+', self.expr('str', depth + 1), self.expr('str', depth + 1))
        if kind == 'bool':
            c2 = r.random()
            if c2 < 0.3:
                k2 = r.choice(['num', 'str'])
                return Bin(r.choice(CMP), self.expr(k2, depth + 1), self.expr(k2, depth + 1))
            if c2 < 0.6:
                k2 = r.choice(['num', 'str', 'bool', 'nil', 'any'])
                k3 = k2 if r.random() < 0.8 else r.choice(['num', 'str', 'bool', 'nil'])
                return Bin(r.choice(EQ), self.expr(k2, depth + 1), self.expr(k3, depth + 1))
            if c2 < 0.8:
                return Un('!', self.expr('any', depth + 1))
            return (And if r.random() < 0.5 else Or)(self.expr('bool', depth + 1), self.expr('bool', depth + 1))
        if kind == 'list':
            return ListLit([self.expr(r.choice(['num', 'str', 'bool', 'nil']), depth + 1)
                            for _ in range(r.randint(0, 3))])
        if kind == 'any':
            return self.expr(r.choice(['num', 'str', 'bool', 'nil']), depth + 1)
        return self.leaf(kind)

    def assignable(self, kind):
        return self.vars_of(kind)

    def leaf(self, kind):
        r = self.rng
        if kind == 'any':
            kind = r.choice(['num', 'str', 'bool', 'nil'])
        vs = self.vars_of(kind)
        if vs and r.random() < 0.55:
            return Var(r.choice(vs))
        if kind == 'num':
            return Num(r.choice(NUMS))
        if kind == 'str':
            return Str(r.choice(STRS))
        if kind == 'bool':
            return Bool(r.random() < 0.5)
        if kind == 'nil':
            return Nil()
        if kind == 'list':
            return ListLit([Num(r.choice(NUMS)) for _ in range(r.randint(0, 3))])
        return Nil()

    def call_expr(self, kind, depth):
        r = self.rng
        cands = [(n, k) for n, k in self.scope.all().items() if k.startswith('fn:') and k.split(':')[2] == kind]
        if not cands:
            return None
        name, k = r.choice(cands)
        arity = int(k.split(':')[1])
        nargs = arity
        if r.random() < 0.05:
            nargs = max(0, arity + r.choice([-1, 1]))
        return Call(Var(name), [self.expr(r.choice(['num', 'str', 'bool']), depth + 1) for _ in range(nargs)])

    # ---- statements -------------------------------------------------------
    def block(self, n_stmts, tail_return_kind=None, new_scope=True):
        if new_scope:
            self.scope = Scope(self.scope)
        out = []
        for _ in range(n_stmts):
            if self.budget <= 0:
                break
            out.extend(self.stmt())
        if new_scope:
            self.scope = self.scope.parent
        return out

    def guarded(self, stmts):
        """wrap statements that may raise so the program continues"""
        v = self.fresh('e')
        return Try(stmts, [(v, 'RuntimeError', [Print([Str('caught RuntimeError')])]),
                           (v, 'Error', [Print([Str('caught other')])])])

    def stmt(self):
        r = self.rng
        self.budget -= 1
        c = r.random()
        if c < 0.22:
            kind = r.choice(['num', 'num', 'str', 'bool', 'nil', 'list'])
            name = self.fresh()
            e = self.expr(kind)
            if kind == 'str' and self.loop_depth > 1:
                e = Str(r.choice(STRS))
            # the declaration must run so later uses are defined: guard only the initialiser
            tmp = [Let(name, Nil() if kind == 'nil' else self.leaf_const(kind)),
                   self.guarded([ExprS(Assign(Var(name), e))])]
            self.scope.vars[name] = kind
            return tmp
        if c < 0.42:
            args = [self.expr(r.choice(['num', 'str', 'bool', 'nil', 'num']))
                    for _ in range(r.randint(1, 3))]
            return [self.guarded([Print(args)])]
        if c < 0.52:
            cond = self.expr('bool' if r.random() < 0.8 else 'any')
            then = self.block(r.randint(1, 3))
            elifs = []
            if r.random() < 0.3:
                elifs.append((self.expr('bool'), self.block(r.randint(1, 2))))
            els = self.block(r.randint(1, 2)) if r.random() < 0.5 else None
            return [self.guarded([If(cond, then, elifs, els)])]
        if c < 0.60:
            return self.while_loop()
        if c < 0.68:
            return self.for_loop()
        if c < 0.74 and self.loop_depth > 0:
            cond = self.expr('bool')
            return [If(cond, [Break() if r.random() < 0.5 else Continue()])]
        if c < 0.84 and self.fn_depth < 2:
            return self.fn_decl()
        if c < 0.90:
            e = self.expr(r.choice(['num', 'str', 'bool']))
            return [self.guarded([ExprS(e)])]
        args = [self.expr('num')]
        return [self.guarded([Print(args)])]

    def leaf_const(self, kind):
        r = self.rng
        if kind == 'num':
            return Num(r.choice(NUMS))
        if kind == 'str':
            return Str(r.choice(STRS))
        if kind == 'bool':
            return Bool(r.random() < 0.5)
        if kind == 'list':
            return ListLit([])
        return Nil()

    def while_loop(self):
        r = self.rng
        i = self.fresh('i')
        n = r.randint(0, 4)
        self.scope.vars[i] = 'counter'
        self.loop_depth += 1
        body = [ExprS(OpAssign(Var(i), '+', Num(1)))] + self.block(r.randint(1, 3))
        self.loop_depth -= 1
        cond = Bin('<', Var(i), Num(n))
        if r.random() < 0.3:
            # generated while the counter is still protected: an assignment to it inside the condition
            # (`i = c ? -1 : i`) would make the loop endless
            cond = And(cond, self.expr('bool'))
        self.scope.vars[i] = 'num'
        return [Let(i, Num(0)), While(cond, body)]

    def for_loop(self):
        r = self.rng
        x = self.fresh('x')
        self.scope = Scope(self.scope)
        if r.random() < 0.5:
            it = Call(Prop(Num(r.randint(0, 4)), 'times'), [])
            self.scope.vars[x] = 'num'
        else:
            it = ListLit([Num(r.choice(NUMS)) for _ in range(r.randint(0, 4))])
            self.scope.vars[x] = 'num'
        self.loop_depth += 1
        body = self.block(r.randint(1, 3))
        self.loop_depth -= 1
        self.scope = self.scope.parent
        return [For(x, it, body)]

    def fn_decl(self):
        r = self.rng
        name = self.fresh('f')
        arity = r.randint(0, 3)
        params = [self.fresh('p') for _ in range(arity)]
        ret_kind = r.choice(['num', 'str', 'bool'])
        outer_loop = self.loop_depth
        self.loop_depth = 0
        self.fn_depth += 1
        self.scope = Scope(self.scope, is_fn=True)
        for p in params:
            self.scope.vars[p] = r.choice(['num', 'str', 'bool'])
        body = self.block(r.randint(0, 3), new_scope=False)
        c = r.random()
        if c < 0.4:
            body.append(Return(self.expr(ret_kind)))
        elif c < 0.8:
            body.append(Implicit(self.expr(ret_kind)))
        else:
            # return from inside an if, implicit at the end of the body
            body.append(If(self.expr('bool'), [Return(self.expr(ret_kind))], [], None))
            body.append(Implicit(self.expr(ret_kind)))
        self.scope = self.scope.parent
        self.fn_depth -= 1
        self.loop_depth = outer_loop
        self.scope.vars[name] = 'fn:%d:%s' % (arity, ret_kind)
        return [Fn(name, params, body)]

    def program(self, n_stmts=12):
        return self.block(n_stmts, new_scope=False)


def wrap_position(stmts, how, rng=None):
    """Same statements at module level / inside a function / method / lambda
    that is called exactly once."""
    if how == 'module':
        return stmts
    if how == 'fn':
        return [Fn('main__', [], stmts), ExprS(Call(Var('main__'), []))]
    if how == 'method':
        return [Class('Main__', None, None, [Fn('run', [], stmts)]),
                ExprS(Call(Prop(Call(Var('Main__'), []), 'run'), []))]
    if how == 'lambda':
        return [Let('main__', Lambda([], stmts, False)), ExprS(Call(Var('main__'), []))]
    if how == 'fn_args':
        return [Fn('main__', ['a__', 'b__'], stmts), ExprS(Call(Var('main__'), [Num(1), Str('s')]))]
    raise ValueError(how)
