"""lyref: an executable reference model of the Laythe subset the generators
emit. It evaluates the same AST the printer turned into text and yields the
expected stdout lines and the expected terminal outcome.

Only determinate behaviour is modelled. Anything the model cannot decide
raises Refuse, and the generated program is then not used as an oracle."""
import math
from lyast import N, fmt_num


class Refuse(Exception):
    """The program left the subset the reference model decides."""


class LyError(Exception):
    """A Laythe error instance in flight."""

    def __init__(self, inst):
        Exception.__init__(self)
        self.inst = inst


class BreakEx(Exception):
    pass


class ContinueEx(Exception):
    pass


class ReturnEx(Exception):
    def __init__(self, v):
        Exception.__init__(self)
        self.v = v


class ExitEx(Exception):
    def __init__(self, code):
        Exception.__init__(self)
        self.code = code


class StepsEx(Exception):
    pass


# ---------------------------------------------------------------------------
# values: nil=None, bool, float, str, and the object classes below


class LyObj:
    __slots__ = ()


class LyList(LyObj):
    __slots__ = ('items',)

    def __init__(self, items):
        self.items = items


class LyTuple(LyObj):
    __slots__ = ('items',)

    def __init__(self, items):
        self.items = items


class LyMap(LyObj):
    __slots__ = ('d',)

    def __init__(self):
        self.d = {}   # key(v) -> (k, v)


class LyClass(LyObj):
    __slots__ = ('name', 'sup', 'fields', 'methods', 'statics', 'init', 'builtin')

    def __init__(self, name, sup, builtin=False):
        self.name = name
        self.sup = sup
        self.fields = list(sup.fields) if sup is not None else []
        self.methods = dict(sup.methods) if sup is not None else {}
        self.statics = {}
        self.init = sup.init if sup is not None else None
        self.builtin = builtin

    def is_subclass(self, other):
        c = self
        while c is not None:
            if c is other:
                return True
            c = c.sup
        return False


class LyInstance(LyObj):
    __slots__ = ('cls', 'f')

    def __init__(self, cls):
        self.cls = cls
        self.f = {name: None for name in cls.fields}


class LyClosure(LyObj):
    __slots__ = ('fn', 'env', 'name', 'cls', 'kind', 'module')

    def __init__(self, fn, env, name, cls=None, kind='fn', module=None):
        self.fn = fn          # N('fn'| 'lambda')
        self.env = env
        self.name = name
        self.cls = cls        # lexically enclosing class (for super)
        self.kind = kind      # fn | method | init | static | lambda
        self.module = module


class LyMethod(LyObj):
    __slots__ = ('recv', 'fn')

    def __init__(self, recv, fn):
        self.recv = recv
        self.fn = fn


class LyNative(LyObj):
    __slots__ = ('name', 'py', 'lo', 'hi', 'is_method', 'kinds')

    def __init__(self, name, py, lo, hi, is_method=False, kinds=None):
        self.name = name
        self.py = py
        self.lo = lo
        self.hi = hi           # None = variadic
        self.is_method = is_method
        self.kinds = kinds     # per-parameter kind names or None


class LyIter(LyObj):
    __slots__ = ('gen', 'cur', 'done', 'size')

    def __init__(self, gen, size=None):
        self.gen = gen
        self.cur = None
        self.done = False
        self.size = size


class LyModule(LyObj):
    __slots__ = ('name', 'exports')

    def __init__(self, name, exports):
        self.name = name
        self.exports = exports


class Cell:
    __slots__ = ('v', 'defined')

    def __init__(self, v=None, defined=True):
        self.v = v
        self.defined = defined


class Env:
    __slots__ = ('vars', 'parent')

    def __init__(self, parent):
        self.vars = {}
        self.parent = parent

    def lookup(self, name):
        e = self
        while e is not None:
            c = e.vars.get(name)
            if c is not None:
                return c
            e = e.parent
        return None


class Frame:
    __slots__ = ('name', 'path', 'line', 'native', 'handlers')

    def __init__(self, name, path, line=0, native=False):
        self.name = name
        self.path = path
        self.line = line
        self.native = native


def is_falsey(v):
    return v is None or v is False


def type_name(v):
    if v is None:
        return 'Nil'
    if v is True or v is False:
        return 'Bool'
    if isinstance(v, float):
        return 'Number'
    if isinstance(v, str):
        return 'String'
    if isinstance(v, LyList):
        return 'List'
    if isinstance(v, LyTuple):
        return 'Tuple'
    if isinstance(v, LyMap):
        return 'Map'
    if isinstance(v, LyInstance):
        return v.cls.name
    if isinstance(v, LyClass):
        return 'Class'
    if isinstance(v, LyClosure):
        return 'Fun'
    if isinstance(v, LyMethod):
        return 'Method'
    if isinstance(v, LyNative):
        return 'Native'
    if isinstance(v, LyIter):
        return 'Iter'
    return 'Object'


def ly_eq(a, b):
    if isinstance(a, bool) or isinstance(b, bool):
        return isinstance(a, bool) and isinstance(b, bool) and a == b
    if isinstance(a, float) and isinstance(b, float):
        return a == b
    if isinstance(a, str) and isinstance(b, str):
        return a == b
    if a is None or b is None:
        return a is None and b is None
    return a is b


def key_of(v):
    if v is None:
        return ('nil',)
    if isinstance(v, bool):
        return ('b', v)
    if isinstance(v, float):
        if v != v:
            raise Refuse('NaN as map key')
        return ('n', v + 0.0 if v != 0 else 0.0)
    if isinstance(v, str):
        return ('s', v)
    return ('o', id(v))


def is_int(v):
    return isinstance(v, float) and v == v and abs(v) != float('inf') and v == math.floor(v)


class Interp:
    def __init__(self, main_path='main.lay', modules=None, max_steps=2_000_000, root=None):
        self.out = []
        self.steps = 0
        self.max_steps = max_steps
        self.main_path = main_path
        self.modules_src = modules or {}     # dotted path tuple -> (path, stmts)
        self.module_cache = {}
        self.frames = []
        self.globals = Env(None)
        self.depth = 0
        self.unwinds = 0
        self.calls = 0
        self.setup_builtins()

    # -- builtins -----------------------------------------------------------
    def setup_builtins(self):
        g = self.globals.vars
        obj = LyClass('Object', None, builtin=True)
        self.object_class = obj
        err = LyClass('Error', obj, builtin=True)
        err.fields = ['message', 'backTrace', 'inner']
        self.error_class = err

        def error_init(it, args):
            this = args[0]
            if not isinstance(args[1], str):
                raise it.rt_error('RuntimeError', 'bad message kind')
            this.f['message'] = args[1]
            this.f['backTrace'] = LyList([])
            if len(args) > 2:
                this.f['inner'] = args[2]
            return this
        err.init = LyNative('init', error_init, 1, 2, is_method=True)
        err.methods['init'] = err.init
        g['Error'] = Cell(err)
        g['Object'] = Cell(obj)
        self.errors = {'Error': err}
        for name in ('TypeError', 'FormatError', 'DeadLockError', 'ValueError', 'IndexError',
                     'ChannelError', 'SyntaxError', 'ImportError', 'ExportError', 'RuntimeError',
                     'PropertyError', 'MethodNotFoundError', 'KeyError'):
            c = LyClass(name, err, builtin=True)
            self.errors[name] = c
            g[name] = Cell(c)

        def native(name, lo, hi=-1):
            def deco(f):
                g[name] = Cell(LyNative(name, f, lo, lo if hi == -1 else hi))
                return f
            return deco

        @native('print', 0, None)
        def _print(it, args):
            it.out.append(' '.join(it.to_str(a) for a in args))
            return None

        @native('exit', 0, 1)
        def _exit(it, args):
            code = 0.0
            if args:
                if not isinstance(args[0], float):
                    raise it.rt_error('RuntimeError', 'exit kind')
                code = args[0]
            if not is_int(code) or code < 0 or code > 65535:
                raise Refuse('exit code outside the pinned domain')
            raise ExitEx(int(code))

        @native('assert', 1)
        def _assert(it, args):
            if args[0] is True:
                return None
            if not isinstance(args[0], bool):
                raise it.rt_error('RuntimeError', 'assert kind')
            raise it.rt_error('RuntimeError', 'Assertion failed.')

        @native('assertEq', 2)
        def _assert_eq(it, args):
            if ly_eq(args[0], args[1]):
                return None
            it.to_str(args[0])
            it.to_str(args[1])
            raise it.rt_error('RuntimeError', 'Assertion failed')

        _natives().install_globals(self)

    # -- errors -------------------------------------------------------------
    def rt_error(self, cls_name, message):
        """A runtime error raised by the VM / a native: Class(message)."""
        cls = self.errors[cls_name]
        inst = LyInstance(cls)
        inst.f['message'] = message
        inst.f['backTrace'] = LyList([])
        return LyError(inst)

    # -- printing -----------------------------------------------------------
    def to_str(self, v, nested=False):
        if v is None:
            return 'nil'
        if v is True:
            return 'true'
        if v is False:
            return 'false'
        if isinstance(v, float):
            return fmt_num(v)
        if isinstance(v, str):
            return ("'" + v + "'") if nested else v
        if isinstance(v, (LyList, LyTuple, LyMap)):
            # a structure that contains itself recurses natively in the VM
            path = self.__dict__.setdefault('str_path', [])
            if any(x is v for x in path):
                raise Refuse('printing a cyclic structure')
            path.append(v)
            try:
                return self.to_str_collection(v)
            finally:
                path.pop()
        return self.to_str_other(v, nested)

    def to_str_collection(self, v):
        if isinstance(v, LyList):
            return '[' + ', '.join(self.to_str(x, True) for x in v.items) + ']'
        if isinstance(v, LyTuple):
            return '(' + ', '.join(self.to_str(x, True) for x in v.items) + ')'
        if isinstance(v, LyMap):
            if not v.d:
                return '{}'
            if len(v.d) > 1:
                raise Refuse('printing a map with several entries (hash order)')
            return '{ ' + ', '.join(self.to_str(k, True) + ': ' + self.to_str(x, True) for k, x in v.d.values()) + ' }'

    def to_str_other(self, v, nested):
        if isinstance(v, LyInstance):
            m = v.cls.methods.get('str')
            if m is not None and not isinstance(m, LyNative):
                r = self.call_value(LyMethod(v, m), [])
                if not isinstance(r, str):
                    raise Refuse('str() returning a non string')
                return ("'" + r + "'") if False else r
            raise Refuse('printing an instance (address)')
        raise Refuse('printing %s (address)' % type_name(v))

    # -- running ------------------------------------------------------------
    def tick(self):
        self.steps += 1
        if self.steps > self.max_steps:
            raise StepsEx()

    def run(self, stmts, path=None):
        """Returns (outcome, info). outcome: ok | exit | error"""
        path = path or self.main_path
        self.frames = [Frame('script', path)]
        env = Env(self.globals)
        self.module_env = env
        self.current_exports = []
        try:
            self.predeclare(stmts, env)
            self.exec_block(stmts, env, new_scope=False)
        except LyError as e:
            tb = [(f.path, f.line, f.name, f.native) for f in reversed(self.frames)]
            return ('error', {'cls': e.inst.cls.name, 'message': e.inst.f.get('message'), 'frames': tb,
                              'inst': e.inst})
        except ExitEx as e:
            return ('exit', {'code': e.code})
        return ('ok', {})

    def predeclare(self, stmts, env):
        """Module level names exist (undefined) before their declaration runs."""
        for s in stmts:
            t = s.a if s.k == 'export' else s
            if t.k in ('let', 'fn', 'class'):
                if t.a not in env.vars:
                    env.vars[t.a] = Cell(None, defined=False)

    # -- statements ---------------------------------------------------------
    def exec_block(self, stmts, env, new_scope=True):
        if new_scope:
            env = Env(env)
        for s in stmts:
            self.exec(s, env)

    def declare(self, env, name, value):
        c = env.vars.get(name)
        if c is not None and not c.defined:
            c.v = value
            c.defined = True
        else:
            env.vars[name] = Cell(value)

    def exec(self, s, env):
        self.tick()
        k = s.k
        fr = self.frames[-1]
        if k == 'expr':
            self.eval(s.a, env)
        elif k == 'let':
            v = self.eval(s.b, env) if s.b is not None else None
            self.declare(env, s.a, v)
        elif k == 'implicit':
            raise ReturnEx(self.eval(s.a, env))
        elif k == 'if':
            if not is_falsey(self.eval(s.a, env)):
                self.exec_block(s.b, env)
                return
            for c, b in s.c:
                if not is_falsey(self.eval(c, env)):
                    self.exec_block(b, env)
                    return
            if s.d is not None:
                self.exec_block(s.d, env)
        elif k == 'while':
            while not is_falsey(self.eval(s.a, env)):
                self.tick()
                try:
                    self.exec_block(s.b, env)
                except BreakEx:
                    break
                except ContinueEx:
                    continue
        elif k == 'for':
            fr.line = s.line
            it = self.make_iter(self.eval(s.b, env))
            loop_env = Env(env)
            cell = Cell(None)
            loop_env.vars[s.a] = cell
            while True:
                self.tick()
                fr.line = s.line
                if not self.iter_next(it):
                    break
                cell.v = it.cur
                try:
                    self.exec_block(s.c, loop_env)
                except BreakEx:
                    break
                except ContinueEx:
                    continue
        elif k == 'break':
            raise BreakEx()
        elif k == 'continue':
            raise ContinueEx()
        elif k == 'return':
            raise ReturnEx(self.eval(s.a, env) if s.a is not None else None)
        elif k == 'fn':
            clo = LyClosure(s, env, s.a, cls=getattr(env, 'cls', None) if False else self.enclosing_class(env),
                            module=self.frames[-1].path)
            self.declare(env, s.a, clo)
        elif k == 'class':
            self.exec_class(s, env)
        elif k == 'try':
            self.exec_try(s, env)
        elif k == 'raise':
            v = self.eval(s.a, env)
            fr.line = s.line
            if isinstance(v, LyInstance) and v.cls.is_subclass(self.error_class):
                raise LyError(v)
            raise self.rt_error('RuntimeError', 'Can only raise an instance of Error')
        elif k == 'block':
            self.exec_block(s.a, env)
        elif k == 'export':
            self.exec(s.a, env)
            self.exports_of_current().append(s.a.a)
        elif k == 'import':
            self.exec_import(s, env)
        else:
            raise Refuse('statement kind ' + k)

    def enclosing_class(self, env):
        e = env
        while e is not None:
            c = e.vars.get('@class')
            if c is not None:
                return c.v
            e = e.parent
        return None

    def exec_class(self, s, env):
        name, supname, init, methods, statics = s.a, s.b, s.c, s.d, s.e
        # the name is declared before the superclass is looked up
        sup = self.object_class
        if supname:
            c = env.lookup(supname)
            if c is None or not c.defined:
                raise self.rt_error('RuntimeError', 'Undefined variable ' + supname)
            sup = c.v
            if not isinstance(sup, LyClass):
                raise self.rt_error('RuntimeError', 'Superclass must be a class.')
            if sup.builtin and sup is not self.object_class and not sup.is_subclass(self.error_class):
                raise Refuse('subclassing a builtin class')
        cls = LyClass(name, sup)
        self.declare(env, name, cls)
        cenv = Env(env)
        cenv.vars['@class'] = Cell(cls)
        if init is not None:
            for f in collect_fields(init.c):
                if f not in cls.fields:
                    cls.fields.append(f)
            clo = LyClosure(init, cenv, 'init', cls=cls, kind='init', module=self.frames[-1].path)
            cls.methods['init'] = clo
            cls.init = clo
        for m in methods:
            cls.methods[m.a] = LyClosure(m, cenv, m.a, cls=cls, kind='method', module=self.frames[-1].path)
        for m in statics:
            cls.statics[m.a] = LyClosure(m, cenv, m.a, cls=cls, kind='static', module=self.frames[-1].path)

    def exec_try(self, s, env):
        depth = len(self.frames)
        try:
            self.exec_block(s.a, env)
        except LyError as e:
            # frames between the raise and this frame
            bt = [self.frame_line(f) for f in reversed(self.frames[depth - 1:])]
            saved = self.frames[depth - 1].line
            self.unwinds += 1
            inst = e.inst
            for var, clsname, body in s.b:
                if clsname:
                    c = env.lookup(clsname)
                    if c is None or not c.defined:
                        del self.frames[depth:]
                        raise self.rt_error('RuntimeError', 'Undefined variable ' + clsname)
                    cls = c.v
                    if not isinstance(cls, LyClass) or not cls.is_subclass(self.error_class):
                        del self.frames[depth:]
                        raise self.rt_error('TypeError', 'Catch block must be blank or a subclass of Error.')
                    if not inst.cls.is_subclass(cls):
                        continue
                # only a matching clause discards the frames above this one; a handler that is searched and does
                # not match leaves the call chain of the error untouched
                del self.frames[depth:]
                inst.f['backTrace'] = LyTuple(bt)
                cenv = Env(env)
                cenv.vars[var] = Cell(inst)
                self.exec_block(body, cenv, new_scope=False)
                return
            self.frames[depth - 1].line = saved
            raise

    def frame_line(self, f):
        if f.native:
            return 'native:0 in %s()' % f.name
        if f.name == 'script':
            return '%s:%d in script' % (f.path, f.line)
        return '%s:%d in %s()' % (f.path, f.line, f.name)

    # -- expressions --------------------------------------------------------
    def eval(self, n, env):
        self.tick()
        k = n.k
        if k == 'num':
            return n.a
        if k == 'str':
            return n.a
        if k == 'bool':
            return n.a
        if k == 'nil':
            return None
        if k == 'var':
            c = env.lookup(n.a)
            if c is None:
                raise Refuse('unresolved name ' + n.a)
            if not c.defined:
                self.frames[-1].line = n.line
                raise self.rt_error('RuntimeError', 'Undefined variable ' + n.a)
            return c.v
        if k == 'group':
            return self.eval(n.a, env)
        if k == 'interp':
            parts = []
            for p in n.a:
                if isinstance(p, str):
                    parts.append(p)
                else:
                    v = self.eval(p, env)
                    self.frames[-1].line = n.line
                    parts.append(self.to_str(v))
            return ''.join(parts)
        if k == 'list':
            return LyList([self.eval(x, env) for x in n.a])
        if k == 'tuple':
            return LyTuple([self.eval(x, env) for x in n.a])
        if k == 'map':
            m = LyMap()
            pairs = []
            for kk, vv in n.a:
                kv = self.eval(kk, env)
                pairs.append((kv, self.eval(vv, env)))
            # the VM inserts the pairs from the top of the stack down: for a
            # repeated key the first pair's value and the last pair's key stay
            for kv, vvv in reversed(pairs):
                old = m.d.get(key_of(kv))
                m.d[key_of(kv)] = (kv if old is None else old[0], vvv)
            return m
        if k == 'bin':
            l = self.eval(n.b, env)
            r = self.eval(n.c, env)
            self.frames[-1].line = n.line
            return self.binop(n.a, l, r)
        if k == 'un':
            v = self.eval(n.b, env)
            self.frames[-1].line = n.line
            if n.a == '!':
                return is_falsey(v)
            if isinstance(v, float):
                return -v
            raise self.rt_error('RuntimeError', 'Operand must be a number.')
        if k == 'and':
            l = self.eval(n.a, env)
            if is_falsey(l):
                return l
            return self.eval(n.b, env)
        if k == 'or':
            l = self.eval(n.a, env)
            if not is_falsey(l):
                return l
            return self.eval(n.b, env)
        if k == 'tern':
            if not is_falsey(self.eval(n.a, env)):
                return self.eval(n.b, env)
            return self.eval(n.c, env)
        if k == 'assign':
            return self.assign(n.a, n.b, env)
        if k == 'opassign':
            return self.opassign(n, env)
        if k == 'call':
            return self.eval_call(n, env)
        if k == 'prop':
            obj = self.eval(n.a, env)
            self.frames[-1].line = n.line
            return self.get_prop(obj, n.b)
        if k == 'index':
            obj = self.eval(n.a, env)
            idx = self.eval(n.b, env)
            self.frames[-1].line = n.line
            return self.call_method_by_name(obj, '[]', [idx])
        if k == 'self':
            c = env.lookup('self')
            if c is None:
                raise Refuse('self outside a method')
            return c.v
        if k == 'at':
            c = env.lookup('self')
            self.frames[-1].line = n.line
            return self.get_prop(c.v, n.a)
        if k == 'super':
            cls = self.enclosing_class(env)
            this = env.lookup('self').v
            m = cls.sup.methods.get(n.a)
            self.frames[-1].line = n.line
            if m is None:
                raise self.rt_error('PropertyError', 'Undefined property %s on class %s.' % (n.a, cls.sup.name))
            return LyMethod(this, m)
        if k == 'lambda':
            return LyClosure(n, env, 'lambda', cls=self.enclosing_class(env), kind='lambda',
                             module=self.frames[-1].path)
        raise Refuse('expression kind ' + k)

    def binop(self, op, l, r):
        if op == '==':
            return ly_eq(l, r)
        if op == '!=':
            return not ly_eq(l, r)
        fl = isinstance(l, float)
        fr = isinstance(r, float)
        if op == '+':
            if fl and fr:
                return l + r
            if isinstance(l, str) and isinstance(r, str):
                if len(l) + len(r) > 20000:
                    raise Refuse('string growth beyond the workload bound')
                return l + r
            raise self.rt_error('RuntimeError', 'Operands must be two numbers or two strings.')
        if op in ('-', '*', '/'):
            if fl and fr:
                if op == '-':
                    return l - r
                if op == '*':
                    return l * r
                if r == 0:
                    if l != l or l == 0:
                        return float('nan')
                    neg = (math.copysign(1.0, l) < 0) != (math.copysign(1.0, r) < 0)
                    return float('-inf') if neg else float('inf')
                return l / r
            raise self.rt_error('RuntimeError', 'Operands must be numbers.')
        if op in ('<', '<=', '>', '>='):
            if (fl and fr) or (isinstance(l, str) and isinstance(r, str)):
                if op == '<':
                    return l < r
                if op == '<=':
                    return l <= r
                if op == '>':
                    return l > r
                return l >= r
            raise self.rt_error('RuntimeError', 'Operands must be numbers.')
        raise Refuse('operator ' + op)

    def assign(self, target, value_node, env):
        k = target.k
        if k == 'var':
            v = self.eval(value_node, env)
            c = env.lookup(target.a)
            if c is None:
                raise Refuse('assignment to unresolved name')
            if not c.defined:
                # module symbols can be set before their let ran? keep it out of the subset
                raise Refuse('assignment before declaration')
            c.v = v
            return v
        if k == 'prop' or k == 'at':
            obj = self.eval(target.a, env) if k == 'prop' else env.lookup('self').v
            v = self.eval(value_node, env)
            self.frames[-1].line = target.line
            self.set_prop(obj, target.b if k == 'prop' else target.a, v)
            return v
        if k == 'index':
            obj = self.eval(target.a, env)
            idx = self.eval(target.b, env)
            v = self.eval(value_node, env)
            self.frames[-1].line = target.line
            self.call_method_by_name(obj, '[]=', [v, idx])
            return v
        raise Refuse('assignment target ' + k)

    def opassign(self, n, env):
        target, op, value_node = n.a, n.b, n.c
        k = target.k
        if k == 'var':
            c = env.lookup(target.a)
            if c is None:
                raise Refuse('unresolved')
            if not c.defined:
                self.frames[-1].line = n.line
                raise self.rt_error('RuntimeError', 'Undefined variable ' + target.a)
            old = c.v
            r = self.eval(value_node, env)
            self.frames[-1].line = n.line
            c.v = self.binop(op, old, r)
            return c.v
        if k == 'prop' or k == 'at':
            obj = self.eval(target.a, env) if k == 'prop' else env.lookup('self').v
            name = target.b if k == 'prop' else target.a
            self.frames[-1].line = n.line
            old = self.get_prop(obj, name)
            r = self.eval(value_node, env)
            self.frames[-1].line = n.line
            v = self.binop(op, old, r)
            self.set_prop(obj, name, v)
            return v
        if k == 'index':
            obj = self.eval(target.a, env)
            idx = self.eval(target.b, env)
            self.frames[-1].line = n.line
            old = self.call_method_by_name(obj, '[]', [idx])
            r = self.eval(value_node, env)
            self.frames[-1].line = n.line
            v = self.binop(op, old, r)
            self.call_method_by_name(obj, '[]=', [v, idx])
            return v
        raise Refuse('opassign target')

    # -- properties ---------------------------------------------------------
    def class_of(self, v):
        return None

    def get_prop(self, obj, name):
        if isinstance(obj, LyInstance):
            if name in obj.f:
                return obj.f[name]
            m = obj.cls.methods.get(name)
            if m is not None:
                return LyMethod(obj, m)
            m = self.builtin_method(obj, name)
            if m is not None:
                return LyMethod(obj, m)
            raise self.rt_error('PropertyError', 'Undefined property %s on class %s.' % (name, obj.cls.name))
        if isinstance(obj, LyClass):
            m = obj.statics.get(name)
            if m is not None:
                return LyMethod(obj, m)
        if isinstance(obj, LyModule):
            if name in obj.exports:
                return obj.exports[name]
            raise self.rt_error('PropertyError', 'Undefined property %s on module' % name)
        m = self.builtin_method(obj, name)
        if m is not None:
            return LyMethod(obj, m)
        raise self.rt_error('PropertyError', 'Undefined property %s on class %s.' % (name, type_name(obj)))

    def set_prop(self, obj, name, v):
        if isinstance(obj, LyInstance):
            if name in obj.f:
                obj.f[name] = v
                return
            raise self.rt_error('PropertyError', 'Undefined property %s on class %s.' % (name, obj.cls.name))
        if isinstance(obj, LyModule):
            # a module object is an instance whose fields are the exports it was built from: a write changes this
            # import's object only, never the module's variable nor the objects other imports received
            if name in obj.exports:
                obj.exports[name] = v
                return
            raise self.rt_error('PropertyError', 'Undefined property %s on module' % name)
        raise self.rt_error('RuntimeError', 'Only instances have settable fields.')

    def builtin_method(self, obj, name):
        return _natives().lookup(self, obj, name)

    def call_method_by_name(self, obj, name, args):
        """invoke obj.name(args): fields shadow methods"""
        if isinstance(obj, LyInstance):
            if name in obj.f:
                return self.call_value(obj.f[name], args)
            m = obj.cls.methods.get(name)
            if m is not None:
                return self.call_value(LyMethod(obj, m), args)
        elif isinstance(obj, LyClass):
            m = obj.statics.get(name)
            if m is not None:
                return self.call_value(LyMethod(obj, m), args)
        elif isinstance(obj, LyModule):
            if name in obj.exports:
                return self.call_value(obj.exports[name], args)
            raise self.rt_error('PropertyError', 'Undefined property %s on module' % name)
        m = self.builtin_method(obj, name)
        if m is not None:
            return self.call_value(LyMethod(obj, m), args)
        cname = obj.cls.name if isinstance(obj, LyInstance) else type_name(obj)
        raise self.rt_error('PropertyError', 'Undefined property %s on class %s.' % (name, cname))

    # -- calls --------------------------------------------------------------
    def eval_call(self, n, env):
        callee_n = n.a
        # the compiler fuses property access and call into one invoke only when
        # there are no arguments; with arguments the property is fetched (bound)
        # first, before the arguments are evaluated, and a missing method is a
        # RuntimeError instead of a PropertyError
        if callee_n.k == 'prop' and not n.b:
            obj = self.eval(callee_n.a, env)
            args = [self.eval(a, env) for a in n.b]
            self.frames[-1].line = n.line
            return self.call_method_by_name(obj, callee_n.b, args)
        if callee_n.k == 'at' and not n.b:
            obj = env.lookup('self').v
            args = [self.eval(a, env) for a in n.b]
            self.frames[-1].line = n.line
            return self.call_method_by_name(obj, callee_n.a, args)
        if callee_n.k == 'super' and not n.b:
            cls = self.enclosing_class(env)
            this = env.lookup('self').v
            args = [self.eval(a, env) for a in n.b]
            self.frames[-1].line = n.line
            m = cls.sup.methods.get(callee_n.a)
            if m is None:
                raise self.rt_error('PropertyError', 'Undefined property %s on class %s.' % (callee_n.a, cls.sup.name))
            return self.call_value(LyMethod(this, m), args)
        callee = self.eval(callee_n, env)
        args = [self.eval(a, env) for a in n.b]
        self.frames[-1].line = n.line
        return self.call_value(callee, args)

    def call_value(self, callee, args, this=None):
        self.tick()
        self.calls += 1
        if isinstance(callee, LyClosure):
            return self.call_closure(callee, args, this)
        if isinstance(callee, LyMethod):
            return self.call_value(callee.fn, args, this=callee.recv) if not isinstance(callee.fn, LyNative) \
                else self.call_native(callee.fn, args, callee.recv)
        if isinstance(callee, LyNative):
            return self.call_native(callee, args, this)
        if isinstance(callee, LyClass):
            inst = LyInstance(callee)
            if callee.init is not None:
                if isinstance(callee.init, LyNative):
                    self.call_native(callee.init, args, inst)
                else:
                    self.call_closure(callee.init, args, inst)
                return inst
            if args:
                raise self.rt_error('RuntimeError', 'Expected 0 arguments but got %d' % len(args))
            return inst
        raise self.rt_error('RuntimeError', '%s is not callable.' % type_name(callee))

    def call_native(self, nat, args, this):
        n = len(args)
        if n < nat.lo or (nat.hi is not None and n > nat.hi):
            raise self.rt_error('RuntimeError', 'arity')
        if nat.is_method:
            return nat.py(self, [this] + list(args))
        return nat.py(self, list(args))

    def call_closure(self, clo, args, this):
        fn = clo.fn
        params = fn.b if fn.k == 'fn' else fn.a
        if len(args) != len(params):
            raise self.rt_error('RuntimeError', 'Expected %d arguments but got %d' % (len(params), len(args)))
        if len(self.frames) >= 255:
            raise self.rt_error('RuntimeError', 'Stack overflow.')
        env = Env(clo.env)
        if clo.kind in ('method', 'init', 'static'):
            env.vars['self'] = Cell(this)
        for p, a in zip(params, args):
            env.vars[p] = Cell(a)
        fname = clo.name
        if fn.k == 'lambda':
            fname = fn.x if isinstance(fn.x, str) else 'lambda'
        self.frames.append(Frame(fname, clo.module or self.main_path, fn.line))
        depth = len(self.frames)
        try:
            if fn.k == 'lambda' and fn.c:
                result = self.eval(fn.b, env)
            else:
                body = fn.c if fn.k == 'fn' else fn.b
                try:
                    self.exec_block(body, env, new_scope=False)
                    result = None
                except ReturnEx as r:
                    result = r.v
            if clo.kind == 'init':
                result = this
            del self.frames[depth - 1:]
            return result
        except (BreakEx, ContinueEx):
            raise Refuse('break/continue escaping a function')

    # -- iteration ----------------------------------------------------------
    def make_iter(self, v):
        if isinstance(v, LyIter):
            return v
        return _natives().iter_of(self, v)

    def iter_next(self, it):
        if it.done:
            return False
        try:
            it.cur = next(it.gen)
            return True
        except StopIteration:
            it.done = True
            it.cur = None
            return False

    # -- modules ------------------------------------------------------------
    def exports_of_current(self):
        return self.current_exports

    def exec_import(self, s, env):
        path = list(s.a)
        if not path or path[0] != 'self':
            raise Refuse('import of a non-self package')
        segs = path[1:]
        if not segs:
            raise Refuse('import self')
        self.frames[-1].line = s.line
        mod = None
        for i in range(1, len(segs) + 1):
            mod = self.load_module(tuple(segs[:i]))
        # the instance is a snapshot of the exported values taken now
        snapshot = {name: mod['env'].vars[name].v for name in mod['exports']}
        if s.c is not None:
            for sym, alias in s.c:
                if sym not in snapshot:
                    raise self.rt_error('ImportError', 'Symbol %s not exported from module %s' % (sym, segs[-1]))
            for sym, alias in s.c:
                self.declare(env, alias or sym, snapshot[sym])
            return
        inst = LyModule(segs[-1], snapshot)
        self.declare(env, s.b or segs[-1], inst)

    def load_module(self, key):
        m = self.module_cache.get(key)
        if m is not None:
            return m
        if key not in self.modules_src:
            raise self.rt_error('ImportError', 'Module self.%s not found' % '.'.join(key))
        path, stmts = self.modules_src[key]
        env = Env(self.globals)
        m = {'env': env, 'exports': [], 'path': path}
        saved_frames = self.frames
        saved_exports = getattr(self, 'current_exports', None)
        # a module body runs on its own fiber: a fresh call chain
        self.frames = [Frame('script', path)]
        self.current_exports = m['exports']
        self.predeclare(stmts, env)
        self.exec_block(stmts, env, new_scope=False)
        # on an error the frames of the module stay in place for the traceback
        self.frames = saved_frames
        self.current_exports = saved_exports
        self.module_cache[key] = m
        self.module_runs = getattr(self, 'module_runs', 0) + 1
        return m


def _natives():
    try:
        import lynative
        return lynative
    except ImportError:
        import lynative_min
        return lynative_min


def collect_fields(stmts):
    """Field names assigned through self./@ directly in an initializer body
    (any block depth, not inside nested functions), in first-mention order."""
    out = []

    def expr(n):
        if n is None or not isinstance(n, N):
            return
        k = n.k
        if k in ('assign', 'opassign'):
            t = n.a
            if t.k == 'prop' and t.a.k == 'self':
                if t.b not in out:
                    out.append(t.b)
            elif t.k == 'at':
                if t.a not in out:
                    out.append(t.a)
            else:
                expr(t)
            expr(n.b if k == 'assign' else n.c)
            return
        if k == 'lambda':
            return
        for f in (n.a, n.b, n.c, n.d):
            visit(f)

    def visit(f):
        if isinstance(f, N):
            if f.k in STMT_KINDS:
                stmt(f)
            else:
                expr(f)
        elif isinstance(f, (list, tuple)):
            for x in f:
                visit(x)

    def stmt(s):
        k = s.k
        if k in ('fn', 'class'):
            return
        if k == 'try':
            visit(s.a)
            for var, cls, body in s.b:
                visit(body)
            return
        for f in (s.a, s.b, s.c, s.d):
            visit(f)

    for s in stmts:
        stmt(s)
    return out


STMT_KINDS = {'let', 'expr', 'implicit', 'if', 'while', 'for', 'break', 'continue', 'return', 'fn', 'class',
              'try', 'raise', 'block', 'import', 'export', 'raws'}
