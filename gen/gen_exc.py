"""C04 generator: try/catch placements. Every variable in scope holds a
unique integer and is printed after every try, so a mis-restored slot or a
handler left active shows up in the output."""
import random
from lyast import *

ERR_CLASSES = ['Error', 'RuntimeError', 'TypeError', 'IndexError', 'ValueError', 'E1', 'E2', 'E3']
USER_ERRS = {'E1': 'Error', 'E2': 'E1', 'E3': 'Error'}


def is_sub(c, sup):
    while c is not None:
        if c == sup:
            return True
        c = USER_ERRS.get(c, 'Error' if c != 'Error' else None)
    return False


class ExcGen:
    def __init__(self, rng):
        self.rng = rng
        self.n = 0
        self.u = 10
        self.tags = set()
        self.budget = 60
        self.fns = []     # (name, arity) of raising helper functions

    def name(self, p):
        self.n += 1
        return '%s%d' % (p, self.n)

    def uniq(self):
        self.u += self.rng.choice([1, 2, 3])
        return self.u

    def dump(self, vars_, tag):
        return Print([Str(tag)] + [Var(v) for v in vars_[-8:]])

    def raiser(self, vars_, depth=0):
        """a statement that raises (explicitly or through a runtime/native error)"""
        r = self.rng
        c = r.random()
        if c < 0.35:
            cls = r.choice(ERR_CLASSES)
            self.tags.add('raise:' + ('user' if cls in USER_ERRS else 'builtin'))
            return [Raise(Call(Var(cls), [Str('m%d' % self.uniq())]))], cls
        if c < 0.50:
            self.tags.add('raise:operator')
            v = r.choice(vars_) if vars_ else None
            e = r.choice([Bin('-', Nil(), Num(1)), Un('-', Str('s')), Bin('+', Num(1), Str('s')),
                          Bin('<', ListLit([]), Num(1)), Call(Num(3), [])])
            tmp = self.name('t')
            return [Let(tmp, e)], 'RuntimeError'
        if c < 0.62:
            self.tags.add('raise:native')
            e, cls = r.choice([(Index(ListLit([Num(1)]), Num(5)), 'IndexError'),
                               (Index(MapLit([]), Str('k')), 'KeyError'),
                               (Call(Prop(ListLit([Num(1)]), 'slice'), [Num(0.5)]), 'ValueError' if False else None),
                               (Call(Prop(Var('Number'), 'parse'), [Str('zz')]), 'FormatError')])
            if cls is None:
                e, cls = Index(ListLit([]), Num(0)), 'IndexError'
            return [ExprS(e)], cls
        if c < 0.75 and self.fns:
            f, arity, cls = r.choice(self.fns)
            self.tags.add('raise:deep')
            return [ExprS(Call(Var(f), [Num(self.uniq()) for _ in range(arity)]))], cls
        if c < 0.85:
            self.tags.add('raise:callback')
            cls = r.choice(['Error', 'E1', 'IndexError'])
            how = r.choice(['map', 'each', 'reduce', 'filter'])
            lam_body = Call(Var(cls), [Str('cb%d' % self.uniq())])
            if how == 'reduce':
                call = Call(Prop(Call(Prop(ListLit([Num(1), Num(2)]), 'iter'), []), 'reduce'),
                            [Num(0), Lambda(['s', 'x'], [Raise(lam_body)], False)])
            elif how == 'each':
                call = Call(Prop(Call(Prop(ListLit([Num(1), Num(2)]), 'iter'), []), 'each'),
                            [Lambda(['x'], [Raise(lam_body)], False)])
            else:
                call = Call(Prop(Call(Prop(Call(Prop(ListLit([Num(1), Num(2)]), 'iter'), []), how),
                                      [Lambda(['x'], [Raise(lam_body)], False)]), 'list'), [])
            return [ExprS(call)], cls
        self.tags.add('raise:arity')
        return [ExprS(Call(Lambda(['q'], Var('q'), True), []))], 'RuntimeError'

    def catches(self, cls_raised, vars_, depth):
        """catch clauses; returns (clauses, handled?)"""
        r = self.rng
        clauses = []
        handled = False
        n = r.randint(1, 3)
        for i in range(n):
            e = self.name('e')
            kind = r.random()
            if kind < 0.3:
                flt = None           # blank catch
            elif kind < 0.65:
                flt = cls_raised if cls_raised in ERR_CLASSES else 'Error'
                if flt in ('KeyError', 'FormatError'):
                    flt = 'Error'
            else:
                flt = r.choice(ERR_CLASSES)
            # only user classes are guaranteed to carry a message this program chose
            body = [Print([Str('caught'), Str(flt or 'any'), Prop(Var(e), 'message') if flt in USER_ERRS else Str('-')])]
            if r.random() < 0.2 and depth < 3:
                # an error while handling: raise a new one from the catch block
                body.append(Raise(Call(Var('E3'), [Str('inner%d' % self.uniq())])))
                self.tags.add('raise_in_catch')
            elif r.random() < 0.15:
                body.append(Raise(Var(e)))
                self.tags.add('rethrow')
            clauses.append((e, flt, body))
        return clauses

    def try_stmt(self, vars_, depth, in_fn, in_loop):
        r = self.rng
        self.budget -= 3
        pre = []
        body = []
        # locals declared inside the try block
        for _ in range(r.randint(0, 2)):
            v = self.name('i')
            body.append(Let(v, Num(self.uniq())))
        if r.random() < 0.5 and vars_:
            v = r.choice(vars_)
            body.append(ExprS(Assign(Var(v), Num(self.uniq()))))
        if r.random() < 0.25:
            # a function, lambda or method DEFINED inside the try block (its returns must not touch the handlers
            # of the code that defines or calls it), called inside the block and possibly again in a catch clause
            self.tags.add('definition_inside_try')
            h = self.name('h')
            kind = r.choice(['fn', 'fn', 'lambda_block', 'lambda_expr', 'method'])
            hb = [Let('t', Bin('+', Var('a'), Num(1))), If(Bin('>', Var('t'), Num(1000000)), [Return(Num(0))]),
                  Return(Bin('*', Var('t'), Num(2)))]
            if kind == 'fn':
                body.append(Fn(h, ['a'], hb))
                call = Call(Var(h), [Num(self.uniq())])
            elif kind == 'lambda_block':
                body.append(Let(h, Lambda(['a'], hb, False)))
                call = Call(Var(h), [Num(self.uniq())])
            elif kind == 'lambda_expr':
                body.append(Let(h, Lambda(['a'], Bin('*', Var('a'), Num(2)), True)))
                call = Call(Var(h), [Num(self.uniq())])
            else:
                cn = 'H' + h
                body.append(Class(cn, None, None, [Fn('go', ['a'], hb)]))
                call = Call(Prop(Call(Var(cn), []), 'go'), [Num(self.uniq())])
            for _ in range(r.randint(1, 3)):
                body.append(Print([Str('helper'), call]))
        exit_kind = r.choice(['raise', 'raise', 'raise', 'complete', 'break', 'continue', 'return', 'nested',
                              'return_raises', 'return_raises'])
        if exit_kind == 'return_raises' and not in_fn:
            exit_kind = 'raise'
        if exit_kind == 'break' and not in_loop:
            exit_kind = 'raise'
        if exit_kind == 'continue' and not in_loop:
            exit_kind = 'complete'
        if exit_kind == 'return' and not in_fn:
            exit_kind = 'raise'
        self.tags.add('exit:' + exit_kind)
        cls = 'Error'
        if exit_kind == 'raise':
            st, cls = self.raiser(vars_, depth)
            if r.random() < 0.3:
                body.append(If(Bin('>', Num(self.uniq()), Num(0)), st))
            else:
                body.extend(st)
        elif exit_kind == 'nested' and depth < 3:
            body.extend(self.try_stmt(vars_, depth + 1, in_fn, in_loop))
            if r.random() < 0.5:
                st, cls = self.raiser(vars_, depth)
                body.extend(st)
        elif exit_kind == 'break':
            body.append(Break())
        elif exit_kind == 'continue':
            body.append(Continue())
        elif exit_kind == 'return':
            body.append(Return(Num(self.uniq())))
        elif exit_kind == 'return_raises':
            # the returned expression itself raises: the handler of this try must still be active
            e = r.choice([Bin('-', Nil(), Num(1)), Index(ListLit([Num(1)]), Num(7)),
                          Call(Lambda(['q'], [Raise(Call(Var('E1'), [Str('rr%d' % self.uniq())]))], False), [Num(1)]),
                          Bin('+', Num(1), Call(Lambda([], [Raise(Call(Var('Error'), [Str('rr%d' % self.uniq())]))], False), []))])
            cls = 'RuntimeError' if e.k == 'bin' and e.a == '-' else ('IndexError' if e.k == 'index' else ('E1' if e.k == 'call' else 'Error'))
            body.append(Return(e))
        else:
            body.append(Print([Str('completed')]))
        clauses = self.catches(cls, vars_, depth)
        return pre + [Try(body, clauses)]

    def block(self, vars_, depth, in_fn, in_loop, n):
        r = self.rng
        vars_ = list(vars_)
        out = []
        for _ in range(n):
            if self.budget <= 0:
                break
            self.budget -= 1
            c = r.random()
            if c < 0.25:
                v = self.name('v')
                out.append(Let(v, Num(self.uniq())))
                vars_.append(v)
            elif c < 0.65:
                out.extend(self.try_stmt(vars_, depth, in_fn, in_loop))
                out.append(self.dump(vars_, 'after'))
            elif c < 0.78 and depth < 3:
                i = self.name('x')
                self.tags.add('try_in_loop')
                inner = self.block(vars_ + [i], depth + 1, in_fn, True, r.randint(1, 3))
                out.append(For(i, Call(Prop(Num(r.randint(1, 3)), 'times'), []), inner))
                out.append(self.dump(vars_, 'loopdone'))
            elif c < 0.88 and vars_:
                v = r.choice(vars_)
                out.append(ExprS(OpAssign(Var(v), '+', Num(1))))
            else:
                out.append(self.dump(vars_, 'mid'))
        return out

    def function(self, depth):
        r = self.rng
        f = self.name('f')
        arity = r.randint(0, 4)
        params = [self.name('p') for _ in range(arity)]
        self.tags.add('arity:%d' % arity)
        vars_ = list(params)
        body = []
        for _ in range(r.randint(0, 3)):
            v = self.name('l')
            body.append(Let(v, Num(self.uniq())))
            vars_.append(v)
        if r.random() < 0.3:
            t = self.name('t')
            body.append(Let(t, Tern(Bool(r.random() < 0.5), Num(self.uniq()), Num(self.uniq()))))
            vars_.append(t)
            self.tags.add('ternary_before_try')
        if r.random() < 0.2 and vars_:
            cap = vars_[0]
            k = self.name('k')
            body.append(Let(k, Lambda([], Var(cap), True)))
            self.tags.add('captured_local')
        body.extend(self.block(vars_, depth + 1, True, False, r.randint(2, 5)))
        body.append(self.dump(vars_, 'end ' + f))
        body.append(Return(Num(self.uniq())))
        return f, arity, Fn(f, params, body)


def case(rng):
    g = ExcGen(rng)
    r = rng
    stmts = [Class('E1', 'Error', None, []), Class('E2', 'E1', None, []), Class('E3', 'Error', None, [])]
    # raising helpers of depth 1-3
    for i in range(r.randint(0, 2)):
        f = g.name('thrower')
        arity = r.randint(0, 2)
        cls = r.choice(ERR_CLASSES)
        params = [g.name('q') for _ in range(arity)]
        inner = [Raise(Call(Var(cls), [Str('deep%d' % g.uniq())]))]
        if g.fns and r.random() < 0.5:
            f0, a0, c0 = r.choice(g.fns)
            inner = [ExprS(Call(Var(f0), [Num(1)] * a0))]
            cls = c0
        stmts.append(Fn(f, params, [Let(g.name('z'), Num(g.uniq()))] + inner))
        g.fns.append((f, arity, cls))
    top_vars = []
    guard_top = []
    for _ in range(r.randint(1, 3)):
        kind = r.choice(['function', 'function', 'module', 'method'])
        if kind == 'module':
            g.tags.add('place:module')
            body = g.block(top_vars, 0, False, False, r.randint(2, 4))
            stmts.extend(body)
        elif kind == 'function':
            g.tags.add('place:function')
            f, arity, fn = g.function(0)
            stmts.append(fn)
            e = g.name('e')
            stmts.append(Try([Print([Str('ret ' + f), Call(Var(f), [Num(g.uniq()) for _ in range(arity)])])],
                             [(e, None, [Print([Str('escaped ' + f)])])]))
        else:
            g.tags.add('place:method')
            f, arity, fn = g.function(0)
            cname = g.name('C')
            init = None
            if r.random() < 0.5:
                f2, a2, fn2 = g.function(0)
                # initialiser bodies cannot use `return value`
                fn2.c = [s for s in fn2.c if s.k != 'return']
                strip_returns(fn2.c)
                init = Fn('init', fn2.b, fn2.c)
                init_args = [Num(g.uniq()) for _ in range(a2)]
                g.tags.add('place:init')
            else:
                init_args = []
            fn.a = 'go'
            stmts.append(Class(cname, None, init, [fn]))
            e = g.name('e')
            stmts.append(Try([Print([Str('ret ' + cname), Call(Prop(Call(Var(cname), init_args), 'go'),
                                                                [Num(g.uniq()) for _ in range(arity)])])],
                             [(e, None, [Print([Str('escaped ' + cname)])])]))
    # after everything, a late error must not reach a handler that was left
    if r.random() < 0.5:
        stmts.append(Print([Str('late')]))
        stmts.append(Raise(Call(Var('E2'), [Str('late%d' % g.uniq())])))
        g.tags.add('late_uncaught')
    return {'stmts': stmts, 'tags': g.tags, 'nontrivial': True}


def strip_returns(stmts):
    """replace `return <value>;` by `return;` inside an initialiser body (recursively, not into lambdas)"""
    for s in stmts:
        if s.k == 'return':
            s.a = None
        elif s.k == 'if':
            strip_returns(s.b)
            for c, b in s.c:
                strip_returns(b)
            if s.d:
                strip_returns(s.d)
        elif s.k in ('while',):
            strip_returns(s.b)
        elif s.k == 'for':
            strip_returns(s.c)
        elif s.k == 'try':
            strip_returns(s.a)
            for v, c, b in s.b:
                strip_returns(b)
        elif s.k == 'block':
            strip_returns(s.a)


def source(rng):
    import lyast
    return lyast.to_source(case(rng)['stmts'])
