"""C13 workload: classes created and discarded at run time (inside functions
and loops), same-named classes with different layouts, shared call sites used
on a subset of iterations so stale cache entries survive until a new class is
allocated at the address of a collected one."""
import random


def invoke_only(r):
    """Classes without fields whose instances (and the classes themselves, as receivers of static methods) reach
    shared *invoke* sites only: no property site ever sees them, so an invoke-cache entry is the only thing that can
    still refer to a class once its instance is dropped. Some shapes lack the method, so a stale hit turns a
    PropertyError into a call."""
    n_shapes = r.randint(2, 5)
    iters = r.randint(12, 40)
    lines = ['fn call(o) { o.foo() }', 'fn call2(o) { o.bar() }', 'fn callS(c) { c.make() }',
             'fn scrub(a, b, c, d, e, f, g, h) { let i = nil; let j = nil; let k = nil; let l = nil; nil }',
             'fn mk(i, wantClass) {']
    for k in range(n_shapes):
        ms = []
        if r.random() < 0.7:
            ms.append('foo() { "foo%d" }' % k)
        if r.random() < 0.7:
            ms.append('bar() { "bar%d" }' % k)
        if r.random() < 0.5:
            ms.append('static make() { "make%d" }' % k)
        for j in range(r.randint(0, 2)):
            ms.append('x%d() { %d }' % (j, j))
        r.shuffle(ms)
        lines.append('  if i == %d {\n    class A { %s }\n    if wantClass { return A; }\n    return A();\n  }' % (k, ' '.join(ms)))
    lines.append('  class A { foo() { "last" } bar() { "lastbar" } static make() { "lastmake" } }')
    lines.append('  if wantClass { return A; }\n  return A();\n}')
    use_mod = r.choice([1, 2, 3])
    lines.append('for i in %d.times() {' % iters)
    lines.append('  let k = i - (i / %d).floor() * %d;' % (n_shapes + 1, n_shapes + 1))
    lines.append('  let viaSite = (i / %d).floor() * %d == i;' % (use_mod, use_mod))
    lines.append('  let o = mk(k, false);')
    lines.append('  let r1 = "-"; let r2 = "-"; let r3 = "-";')
    lines.append('  try { r1 = viaSite ? call(o) : o.foo(); } catch e: Error { r1 = "nofoo"; }')
    lines.append('  scrub(nil, nil, nil, nil, nil, nil, nil, nil);')
    lines.append('  try { r2 = call2(o); } catch e: Error { r2 = "nobar"; }')
    if r.random() < 0.6:
        lines.append('  let c = mk(k, true);')
        lines.append('  try { r3 = callS(c); } catch e: Error { r3 = "nomake"; }')
    lines.append('  print(i, k, r1, r2, r3);')
    lines.append('}')
    lines.append('print("done");')
    return '\n'.join(lines) + '\n'


def source(rng):
    r = rng
    if r.random() < 0.3:
        return invoke_only(r)
    n_shapes = r.randint(2, 4)
    iters = r.randint(12, 40)
    shapes = []
    for k in range(n_shapes):
        nm = r.randint(0, 3)
        # every shape has a field `a`, at a different slot from shape to shape
        fields = r.sample(['b', 'c', 'd'], r.randint(0, 3))
        fields.insert(r.randint(0, len(fields)), 'a')
        extra = ''.join('    x%d() { %d }\n' % (j, j) for j in range(nm))
        init = '    init() { ' + ' '.join('self.%s = "%s%d";' % (f, f, k) for f in fields) + ' }\n'
        parent = ''
        if k > 0 and r.random() < 0.3:
            parent = ' : Base'
        shapes.append((fields, '  if i == %d {\n    class A%s {\n%s%s    foo() { "foo%d" }\n    get() { self.%s }\n  }\n    return A();\n  }\n' % (
            k, parent, init if not parent else init.replace('init() {', 'init() { super.init();'), extra, k, fields[0])))
    lines = []
    if r.random() < 0.5:
        # call sites that are compiled first (lowest cache slots) and never run, or run only at the very end:
        # their cache entries stay empty while later entries are live (a hole in front of the live entries)
        lines.append('fn never(o) { o.a = o.a; return o.get() + o.foo() + o.a; }')
        lines.append('fn late(o) { return o.a; }')
    lines.append('class Base { init() { self.z = "z"; } basefoo() { "base" } }')
    lines.append('fn call(o) { o.foo() }')
    lines.append('fn read(o) { o.get() }')
    lines.append('fn rdA(o) { o.a }')
    lines.append('fn wrA(o, v) { o.a = v; return o.a; }')
    lines.append('fn scrub(a, b, c, d, e, f, g, h) { let i = nil; let j = nil; let k = nil; let l = nil; nil }')
    lines.append('fn mk(i) {')
    for fields, text in shapes:
        lines.append(text)
    lines.append('  class A { init() { self.z = "z"; self.a = "alast"; } foo() { "last" } get() { "lastget" } }\n  return A();\n}')
    use_mod = r.choice([2, 3])
    lines.append('let bad = 0;')
    lines.append('for i in %d.times() {' % iters)
    lines.append('  let k = i - (i / %d).floor() * %d;' % (n_shapes + 1, n_shapes + 1))
    lines.append('  let o = mk(k);')
    lines.append('  let viaSite = (i / %d).floor() * %d == i;' % (use_mod, use_mod))
    if r.random() < 0.5:
        # instances of these classes only ever pass through property sites
        lines.append('  let r1 = "-";')
        lines.append('  let r2 = "-";')
    else:
        lines.append('  let r1 = viaSite ? call(o) : o.foo();')
        lines.append('  let r2 = viaSite ? o.get() : read(o);')
    lines.append('  scrub(nil, nil, nil, nil, nil, nil, nil, nil);')
    lines.append('  let r3 = viaSite ? rdA(o) : o.a;')
    lines.append('  let r4 = viaSite ? o.a : wrA(o, "w${i}");')
    lines.append('  print(i, k, r1, r2, r3, r4);')
    lines.append('}')
    if lines[0].startswith('fn never'):
        lines.append('print("late", late(mk(0)));')
    lines.append('print("done");')
    return '\n'.join(lines) + '\n'
