"""C15 workload: seeded token-level and byte-level mutations of valid
programs, truncations, unbalanced delimiters, random token soup and boundary
inputs for the front end."""
import random
import re

TOKEN_RE = re.compile(r'''
    (?P<comment>//[^\n]*)
  | (?P<ws>\s+)
  | (?P<str>"(?:\\.|[^"\\])*"|'(?:\\.|[^'\\])*')
  | (?P<num>\d+\.?\d*(?:[eE][-+]?\d+)?)
  | (?P<id>[A-Za-z_][A-Za-z0-9_]*\??)
  | (?P<op><-|->|==|!=|<=|>=|&&|\|\||\+=|-=|\*=|/=|[-+*/<>=!?:;,.(){}\[\]|@&$\\#%^~`])
  | (?P<other>.)
''', re.X | re.S)

KEYWORDS = ['let', 'fn', 'class', 'if', 'else', 'while', 'for', 'in', 'return', 'break', 'continue', 'try', 'catch',
            'raise', 'import', 'export', 'as', 'self', 'super', 'static', 'true', 'false', 'nil', 'launch', 'chan',
            'trait', 'type', 'and', 'or', 'init', 'print']
PUNCT = ['(', ')', '{', '}', '[', ']', ';', ',', '.', ':', '?', '|', '||', '&&', '=', '==', '!=', '<', '<=', '>',
         '>=', '+', '-', '*', '/', '+=', '-=', '<-', '->', '!', '@', '${', '"', "'", '\\', '//', '#']
LITERALS = ['0', '1', '255', '256', '65535', '65536', '1e309', '0.5', '1.', '.5', '"s"', "'s'", '"${1}"', '"a${"b"}c"',
            '"\\u{41}"', '"\\q"', '"unterminated', 'x', 'y', 'Error', 'é', '日本', '😀', '_', 'a?']
POOL = KEYWORDS + PUNCT + LITERALS
# complete statements that are only legal in some contexts (loop, function, method, module level); transplanted to
# arbitrary statement boundaries they exercise every context check the parser/resolver/compiler share
STMTS = ['break;', 'continue;', 'return 1;', 'return;', 'self.q;', 'self;', 'super.m();', 'super.init();',
         'export let q__ = 1;', 'export fn q__() {}', 'export class Q__ {}', 'import std.math;', 'raise Error("t");',
         'let f__ = || { break; };', 'let f__ = || { continue; };', 'let f__ = |a| { return a; };', 'let f__ = || self;',
         'let f__ = || super.m();', 'fn f__() { break; }', 'fn f__() { continue; }', 'fn f__() { return self; }',
         'while false { let f__ = || { break; }; }', 'for i__ in [1] { let f__ = || { continue; }; f__(); }',
         'class K__ { m() { break; } }', 'class K__ { static s() { return self; } }', 'class K__ : K__ {}',
         'let q__ = q__;', 'let self = 1;', 'let super = 1;', 'try { break; } catch e__: Error { continue; }',
         'launch q__();', 'return 1; print(2);', 'init();', 'static;', 'export export let q__ = 1;']
MULTIBYTE = ['é', 'ß', 'α', '日', '本', '😀', '\u0301', '\u200b', '\ufeff', '\u2028']


def tokenize(text):
    return [m.group(0) for m in TOKEN_RE.finditer(text)]


def mutate(text, rng):
    """returns (mutant text, description)"""
    c = rng.random()
    toks = tokenize(text)
    sig = [i for i, t in enumerate(toks) if not t.isspace()]
    if not sig:
        return rng.choice(POOL), 'soup1'
    if c < 0.55:
        n = rng.choice([1, 1, 1, 2, 3, 5])
        ops = []
        for _ in range(n):
            sig = [i for i, t in enumerate(toks) if not t.isspace()]
            if not sig:
                break
            i = rng.choice(sig)
            op = rng.choice(['del', 'dup', 'swap', 'rep', 'ins', 'rep_kw', 'del_range', 'ins_stmt', 'uni'])
            ops.append(op)
            if op == 'ins_stmt':
                bounds = [k for k in sig if toks[k] in ('{', ';', '}')]
                k = rng.choice(bounds) + 1 if bounds else 0
                toks.insert(k, ' ' + rng.choice(STMTS) + ' ')
                continue
            if op == 'uni':
                # a multi-byte character inside a token (string bodies, escapes, numbers, identifiers, comments)
                t = toks[i]
                k = rng.randrange(len(t) + 1)
                ch = rng.choice(MULTIBYTE)
                toks[i] = t[:k] + ch + (t[k + 1:] if rng.random() < 0.5 else t[k:])
                continue
            if op == 'del':
                del toks[i]
            elif op == 'dup':
                toks.insert(i, toks[i])
            elif op == 'swap' and len(sig) > 1:
                j = rng.choice(sig)
                toks[i], toks[j] = toks[j], toks[i]
            elif op == 'rep':
                toks[i] = rng.choice(POOL)
            elif op == 'rep_kw':
                # reserved word in identifier position and vice versa
                ids = [k for k in sig if re.match(r'^[A-Za-z_]', toks[k])]
                if ids:
                    toks[rng.choice(ids)] = rng.choice(KEYWORDS)
            elif op == 'ins':
                toks.insert(i, ' ' + rng.choice(POOL) + ' ')
            elif op == 'del_range':
                j = min(len(toks), i + rng.randint(1, 8))
                del toks[i:j]
        return ''.join(toks), 'token:' + '+'.join(ops)
    if c < 0.68:
        i = rng.choice(sig)
        return ''.join(toks[:i]), 'truncate_token'
    if c < 0.78:
        # unbalance delimiters
        delims = [i for i in sig if toks[i] in '(){}[]"\'']
        if delims:
            i = rng.choice(delims)
            if rng.random() < 0.5:
                del toks[i]
            else:
                toks.insert(i, toks[i])
        else:
            toks.insert(rng.choice(sig), rng.choice(['(', '{', '[', '"', '${']))
        return ''.join(toks), 'unbalance'
    if c < 0.92:
        data = bytearray(text.encode('utf-8'))
        n = rng.choice([1, 1, 2, 4])
        for _ in range(n):
            if not data:
                break
            i = rng.randrange(len(data))
            op = rng.choice(['flip', 'ins', 'del', 'trunc', 'ctrl'])
            if op == 'flip':
                data[i] ^= 1 << rng.randrange(8)
            elif op == 'ins':
                data.insert(i, rng.randrange(256))
            elif op == 'del':
                del data[i]
            elif op == 'ctrl':
                data[i] = rng.choice([0, 9, 10, 13, 27, 127])
            else:
                del data[i:]
        # the runtime only ever sees valid UTF-8 (it refuses to read anything else)
        return data.decode('utf-8', 'ignore'), 'byte'
    n = rng.randint(1, 60)
    return ' '.join(rng.choice(POOL) for _ in range(n)), 'soup'


def boundary_inputs():
    D = 256
    out = {}
    out['deep_parens'] = 'print(' + '(' * D + '1' + ')' * D + ');'
    out['deep_lists'] = 'print(' + '[' * D + '1' + ']' * D + '.len());'
    out['deep_unary'] = 'print(' + '-' * D + '1);'
    out['deep_not'] = 'print(' + '!' * D + 'true);'
    out['deep_blocks'] = 'let x = 0;\n' + 'if true {\n' * D + 'x = 1;\n' + '}\n' * D + 'print(x);'
    out['deep_while'] = 'let x = 0;\n' + 'while x < 1 {\n' * 100 + 'x = 1;\n' + '}\n' * 100 + 'print(x);'
    out['deep_lambdas'] = 'let f = ' + '|| ' * D + '1;\nprint(1);'
    out['deep_calls'] = 'fn f(x) { return x; }\nprint(' + 'f(' * D + '1' + ')' * D + ');'
    out['deep_ternary'] = 'print(' + 'true ? ' * D + '1' + ' : 0' * D + ');'
    out['deep_binary_right'] = 'print(' + '1 + (' * D + '1' + ')' * D + ');'
    out['long_binary_left'] = 'print(' + '1' + ' + 1' * 5000 + ');'
    out['deep_maps'] = 'print(' + '{"k": ' * D + '1' + '}' * D + '.len());'
    out['deep_interp'] = 'print(' + '"a${' * 60 + '1' + '}b"' * 60 + ');'
    out['deep_fn'] = ''.join('fn f%d() {\n' % i for i in range(D)) + 'return 1;\n' + '}\n' * D + 'print(1);'
    out['deep_class'] = ''.join('class C%d { m() {\n' % i for i in range(100)) + 'return 1;\n' + '} }\n' * 100 + 'print(1);'
    out['deep_try'] = 'try {\n' * 100 + 'raise Error("x");\n' + '} catch e: Error { raise e; }\n' * 99 + '} catch e: Error { print("out"); }'
    out['deep_open_only'] = '(' * 300
    out['deep_open_braces'] = 'fn f() ' + '{' * 300
    out['deep_open_lists'] = 'let x = ' + '[' * 300
    out['deep_open_interp'] = 'print(' + '"${' * 100
    for n in (254, 255, 256, 300):
        out['locals_%d' % n] = 'fn f() {\n' + ''.join('let a%d = %d;\n' % (i, i) for i in range(n)) + 'return a0;\n}\nprint(f());'
        out['params_%d' % n] = 'fn f(' + ', '.join('p%d' % i for i in range(n)) + ') { return 1; }\nprint(1);'
        out['args_%d' % n] = 'fn f() { return 1; }\ntry { f(' + ', '.join(str(i) for i in range(n)) + '); } catch e: Error { print("arity"); }'
        out['captures_%d' % n] = ('fn f() {\n' + ''.join('let c%d = %d;\n' % (i, i) for i in range(min(n, 250))) + 'let g = || ' +
                                  ' + '.join('c%d' % i for i in range(min(n, 250))) + ';\nreturn g();\n}\nprint(f());')
        out['lambda_params_%d' % n] = 'let f = |' + ', '.join('p%d' % i for i in range(n)) + '| 1;\nprint(1);'
        out['launch_args_%d' % n] = 'fn f() { return 1; }\nlaunch f(' + ', '.join(str(i) for i in range(n)) + ');\nprint(1);'
        out['interp_parts_%d' % n] = 'let a = 1;\nprint("' + '${a}x' * n + '".len());'
    out['constants_65535'] = 'let l = [' + ', '.join(str(100000 + i) for i in range(65535)) + '];\nprint(l.len());'
    out['constants_65537'] = 'let l = [' + ', '.join(str(100000 + i) for i in range(65537)) + '];\nprint(l.len());'
    out['constants_fn_70000'] = 'fn f() { let l = [' + ', '.join(str(100000 + i) for i in range(70000)) + ']; return l.len(); }\nprint(f());'
    out['strings_70000'] = 'fn f() { return [' + ', '.join('"s%d"' % i for i in range(70000)) + '].len(); }\nprint(f());'
    out['long_ident'] = 'let ' + 'a' * 1000000 + ' = 1;\nprint(1);'
    out['long_number'] = 'print(' + '9' * 100000 + ');'
    out['long_fraction'] = 'print(0.' + '1' * 100000 + ');'
    out['long_string'] = 'print("' + 'x' * 1000000 + '".len());'
    out['long_comment'] = '// ' + 'c' * 1000000 + '\nprint(1);'
    out['list_elems_70000'] = 'print([' + ','.join('1' for i in range(70000)) + '].len());'
    out['tuple_elems_70000'] = 'print((' + ','.join('1' for i in range(70000)) + ').len());'
    out['map_elems_40000'] = 'print({' + ','.join('%d:1' % i for i in range(40000)) + '}.len());'
    out['module_syms_300'] = ''.join('let g%d = %d;\n' % (i, i) for i in range(300)) + 'print(g299);'
    out['module_syms_3000'] = ''.join('let g%d = 1;\n' % i for i in range(3000)) + 'print(1);'
    out['code_on_line_65536'] = '\n' * 65535 + 'print(1);'
    out['raise_on_line_70001'] = '\n' * 70000 + 'raise Error("far");'
    out['methods_300'] = 'class C {\n' + ''.join('m%d() { %d }\n' % (i, i) for i in range(300)) + '}\nprint(C().m299());'
    out['fields_256'] = 'class C { init() {\n' + ''.join('self.f%d = %d;\n' % (i, i) for i in range(256)) + '} }\nprint(1);'
    out['fields_257'] = 'class C { init() {\n' + ''.join('self.f%d = %d;\n' % (i, i) for i in range(257)) + '} }\nprint(1);'
    out['catch_clauses_300'] = 'try { raise Error("x"); }' + ''.join(' catch e%d: TypeError { print(%d); }' % (i, i) for i in range(300)) + ' catch e: Error { print("ok"); }'
    out['elif_chain_250'] = 'let x = 5;\nif x == 0 { print(0); }' + ''.join(' else if x == %d { print(%d); }' % (i, i) for i in range(1, 250)) + ' else { print("none"); }'
    out['lines_66000'] = '\n' * 66000 + 'print(1);'
    out['big_jump'] = 'fn f(c) {\n  let x = 0;\n  if c {\n' + '    x = x + 1;\n' * 9000 + '  }\n  return x;\n}\nprint(f(true));\n'
    out['big_loop'] = 'fn f() {\n  let x = 0;\n  let i = 0;\n  while i < 1 {\n    i = i + 1;\n' + '    x = x + 1;\n' * 9000 + '  }\n  return x;\n}\nprint(f());\n'
    out['big_try'] = 'fn f() {\n  let x = 0;\n  try {\n' + '    x = x + 1;\n' * 9000 + '  raise Error("e");\n  } catch e: Error { return x; }\n  return 0;\n}\nprint(f());\n'
    out['big_and'] = 'fn f(c) { return c && (' + ' + '.join('1' for _ in range(25000)) + '); }\nprint(f(true));\n'
    for n in (254, 255, 256, 300, 600):
        out['block_locals_%d' % n] = ('fn f() {\nif true {\n' + ''.join('let a%d = %d;\n' % (i, i) for i in range(n)) +
                                      '}\nreturn 1;\n}\nprint(f());')
        out['loop_locals_%d' % n] = ('fn f() {\nwhile true {\n' + ''.join('let a%d = %d;\n' % (i, i) for i in range(n)) +
                                     'break;\n}\nreturn 1;\n}\nprint(f());')
    # escape zoo: every escape introducer x payload (ascii hex, ascii non-hex, 2/3/4-byte characters, mixtures) x closer
    k = 0
    for opener in ('"\\u{', "'\\u{", '"a${"\\u{', '"\\u', '"\\x', '"\\'):
        for payload in ('41', '', 'zz', 'é', '日', '😀', '4é', 'é4', '41é', '0000000041', '1F600', '😀😀😀😀😀😀😀', 'α}β', ' 41 '):
            for closer in ('}"', '"', '}', '', "}'"):
                out['escape_zoo_%d' % k] = 'print(1);\nprint(' + opener + payload + closer + ');\nprint(2);'
                k += 1
    # oversized forward/backward distances for every instruction that carries one, with both branch directions taken;
    # EXPECT below says what the program prints if the front end accepts it
    pad_stmt = '    x = x + 1;\n'
    big = 9000            # 9000 * (>= 8 bytes) > 65535
    long_sum = ' + '.join('1' for _ in range(25000))
    out['big_if_false'] = 'fn f(c) {\n  let x = 0;\n  if c {\n' + pad_stmt * big + '  }\n  return x;\n}\nprint(f(false));\n'
    out['big_else'] = ('fn f(c) {\n  let x = 0;\n  if c {\n    x = 7;\n  } else {\n' + pad_stmt * big + '  }\n  return x;\n}\n'
                       'print(f(true));\nprint(f(false));\n')
    out['big_while_skipped'] = 'fn f() {\n  let x = 0;\n  while x > 0 {\n' + pad_stmt * big + '  }\n  return x;\n}\nprint(f());\n'
    out['big_and_false'] = 'fn f(c) { return c && (' + long_sum + '); }\nprint(f(false));\nprint(f(true));\n'
    out['big_or_true'] = 'fn f(c) { return c || (' + long_sum + '); }\nprint(f(5));\nprint(f(nil));\n'
    out['big_ternary'] = 'fn f(c) { return c ? (' + long_sum + ') : 2; }\nprint(f(false));\nprint(f(true));\n'
    out['big_ternary_else'] = 'fn f(c) { return c ? 2 : (' + long_sum + '); }\nprint(f(true));\nprint(f(false));\n'
    out['big_for'] = 'fn f() {\n  let x = 0;\n  for i in 2.times() {\n' + pad_stmt * big + '  }\n  return x;\n}\nprint(f());\n'
    out['big_catch'] = ('fn f() {\n  let x = 0;\n  try {\n    x = nil - 1;\n  } catch e: Error {\n' + pad_stmt * big +
                        '  }\n  return x;\n}\nprint(f());\n')
    out['big_continue'] = ('fn f() {\n  let x = 0;\n  let i = 0;\n  while i < 3 {\n    i = i + 1;\n    if i == 2 { continue; }\n' +
                           pad_stmt * big + '  }\n  return x;\n}\nprint(f());\n')
    out['big_break'] = ('fn f() {\n  let x = 0;\n  while true {\n    if x == 0 { x = 1; } else { break; }\n' + pad_stmt * big +
                        '  }\n  return x;\n}\nprint(f());\n')
    out['labels_70000'] = 'let x = 0; ' + 'if x == 0 { x = x + 1; } else { x = x + 2; } ' * 35000 + 'print(x);'
    out['labels_fn_70000'] = 'fn f() { let x = 0; ' + 'while x < 0 { x = x + 1; } ' * 40000 + 'return x; } print(f());'
    refs = ' + '.join(['x'] * 300)
    out['enclosing_refs_300'] = 'fn a() { let x = 1; fn b() { fn c() { return ' + refs + '; } return c(); } return b(); }\nprint(a());'
    out['enclosing_refs_lambda_300'] = 'fn a() { let x = 1; return || || ' + refs + '; }\nprint(a()()());'
    out['direct_refs_300'] = 'fn a() { let x = 1; return || ' + refs + '; }\nprint(a()());'
    for name, text in [('unterminated_interp', 'print("a${");'), ('unterminated_interp2', 'print("a${"b${'),
                       ('unterminated_str', 'print("abc'), ('nul_bytes', 'print(1);\x00\x00print(2);'),
                       ('bom', '﻿print(1);'), ('invalid_escape', 'print("\\q");'),
                       ('unicode_escape_big', 'print("\\u{FFFFFFF}");'), ('unicode_escape_surrogate', 'print("\\u{D800}");'),
                       ('unicode_escape_open', 'print("\\u{41");'), ('unicode_escape_empty', 'print("\\u{}");'),
                       ('lone_backslash', 'print("\\'), ('empty', ''), ('only_ws', ' \n\t\r\n'), ('only_comment', '// x'),
                       ('emoji_ident', 'let 😀 = 1;'), ('multibyte_after_dot', 'let x = 1; x.é'), ('at_alone', '@'),
                       ('number_forms', 'print(1e999, 1e-999, 0x10, 1_000, 1..2, 1.e5, 00012);'),
                       ('crlf', 'print(1);\r\nprint("a\r\nb");\r\n'), ('semicolons', ';;;;'), ('dollar', 'print("$");print("$$ {");')]:
        out[name] = text
    return out


# what an ACCEPTED boundary program must print (one line per print). A front end that accepts the text but builds a
# program that prints something else (a truncated jump, a wrapped operand) has not "produced a runnable program".
EXPECT = {
    'big_jump': ['9000'], 'big_loop': ['9000'], 'big_try': ['9000'], 'big_and': ['25000'],
    'big_if_false': ['0'], 'big_else': ['7', '9000'], 'big_while_skipped': ['0'],
    'big_and_false': ['false', '25000'], 'big_or_true': ['5', '25000'], 'big_ternary': ['2', '25000'],
    'big_ternary_else': ['2', '25000'], 'big_for': ['18000'], 'big_catch': ['9000'], 'big_continue': ['18000'],
    'big_break': ['9001'], 'labels_70000': ['69999'], 'labels_fn_70000': ['0'], 'enclosing_refs_300': ['300'],
    'enclosing_refs_lambda_300': ['300'], 'direct_refs_300': ['300'],
    'deep_parens': ['1'], 'deep_unary': ['1'], 'deep_not': ['true'], 'deep_blocks': ['1'], 'deep_while': ['1'],
    'deep_calls': ['1'], 'deep_ternary': ['1'], 'deep_binary_right': ['257'], 'long_binary_left': ['5001'],
    'locals_254': ['0'], 'block_locals_254': ['1'], 'loop_locals_254': ['1'], 'module_syms_300': ['299'],
    'methods_300': ['299'], 'elif_chain_250': ['5'], 'constants_65535': ['65535'], 'list_elems_70000': ['70000'],
    'tuple_elems_70000': ['70000'], 'map_elems_40000': ['40000'],
}
