"""C10 generator: mutation histories through aliases interleaved with
identity probes. The generator tracks list lengths and capacities itself
(the programs are straight-line), so it knows whether a list has outgrown its
initial capacity while aliases of it were stored off the stack (known finding
D6) and labels the case accordingly."""
import random
from lyast import *


class Obj:
    def __init__(self, kind, ident):
        self.kind = kind          # list | map | inst
        self.ident = ident
        self.len = 0
        self.cap = 0
        self.moved = False
        self.paths = []           # expressions that evaluate to this object
        self.deep_alias = False   # an alias stored somewhere other than a plain variable


def case(rng, allow_growth=None):
    r = rng
    if allow_growth is None:
        allow_growth = r.random() < 0.35
    stmts = [Class('Cell', None, Fn('init', ['v'], [ExprS(Assign(Prop(Self(), 'v'), Var('v'))),
                                                    ExprS(Assign(Prop(Self(), 'w'), Nil()))]), [])]
    objs = []
    n = [0]
    u = [100]
    tags = set()

    def name(p):
        n[0] += 1
        return '%s%d' % (p, n[0])

    def uniq():
        u[0] += 1
        return u[0]

    def new_list():
        o = Obj('list', len(objs))
        k = r.randint(1, 6)
        v = name('l')
        stmts.append(Let(v, ListLit([Num(uniq()) for _ in range(k)])))
        o.len = k
        o.cap = k
        # make room so that later pushes do not have to grow
        if r.random() < 0.7:
            pops = r.randint(1, k)
            for _ in range(pops):
                stmts.append(ExprS(Call(Prop(Var(v), 'pop'), [])))
            o.len -= pops
        o.paths.append(Var(v))
        objs.append(o)
        return o

    def new_map():
        o = Obj('map', len(objs))
        v = name('m')
        stmts.append(Let(v, MapLit([(Str('k%d' % i), Num(uniq())) for i in range(r.randint(0, 3))])))
        o.paths.append(Var(v))
        objs.append(o)
        return o

    def new_inst():
        o = Obj('inst', len(objs))
        v = name('o')
        stmts.append(Let(v, Call(Var('Cell'), [Num(uniq())])))
        o.paths.append(Var(v))
        objs.append(o)
        return o

    for _ in range(r.randint(2, 4)):
        new_list()
    for _ in range(r.randint(1, 2)):
        new_map()
    for _ in range(r.randint(1, 2)):
        new_inst()
    holders = {}     # map object ident -> list of (key expr, stored obj) for object keys
    hlists = []      # persistent holder lists: dict(var, idx, obj, len, cap); only ever pushed to

    def new_hlist():
        # a long-lived list with another object as one of its elements; it grows by push bursts of its own, so
        # "the holder grew, then the element grew" (and the reverse) both occur
        o = r.choice(objs)
        v = name('hl')
        pads = r.randint(0, 3)
        stmts.append(Let(v, ListLit([Str('pad%d' % i) for i in range(pads)] + [path(o)])))
        hlists.append({'var': v, 'idx': pads, 'obj': o, 'len': pads + 1, 'cap': pads + 1})
        o.deep_alias = True
        tags.add('alias:holder-list')

    def grow_hlist():
        h = r.choice(hlists)
        k = r.randint(1, 12)
        stmts.append(For('hi', Call(Prop(Num(k), 'times'), []), [ExprS(Call(Prop(Var(h['var']), 'push'), [Var('hi')]))]))
        h['len'] += k
        if h['len'] > h['cap']:
            while h['cap'] < h['len']:
                h['cap'] = max(1, h['cap'] * 2)
            tags.add('holder-list-grew')

    def probe_hlist():
        h = r.choice(hlists)
        o = h['obj']
        stmts.append(Print([Str('holder %s' % h['var']), Call(Prop(Var(h['var']), 'index'), [path(o)]),
                            Call(Prop(Var(h['var']), 'has'), [path(o)]),
                            Bin('==', Index(Var(h['var']), Num(h['idx'])), path(o))]))

    def path(o):
        return r.choice(o.paths)

    def store_alias():
        """store a reference to a random object somewhere new"""
        o = r.choice(objs)
        c = r.random()
        if c < 0.2:
            v = name('a')
            stmts.append(Let(v, path(o)))
            o.paths.append(Var(v))
            tags.add('alias:var')
        elif c < 0.4:
            v = name('h')
            depth = r.randint(1, 3)
            e = path(o)
            for _ in range(depth):
                e = ListLit([e])
            stmts.append(Let(v, e))
            p = Var(v)
            for _ in range(depth):
                p = Index(p, Num(0))
            o.paths.append(p)
            o.deep_alias = True
            tags.add('alias:nested%d' % depth)
        elif c < 0.55:
            m = r.choice([x for x in objs if x.kind == 'map'])
            k = 'v%d' % uniq()
            stmts.append(ExprS(Assign(Index(path(m), Str(k)), path(o))))
            o.paths.append(Index(path(m), Str(k)))
            o.deep_alias = True
            tags.add('alias:mapvalue')
        elif c < 0.7:
            m = r.choice([x for x in objs if x.kind == 'map'])
            tag = 'key%d' % uniq()
            stmts.append(ExprS(Assign(Index(path(m), path(o)), Str(tag))))
            holders.setdefault(m.ident, []).append((o, tag))
            o.deep_alias = True
            tags.add('alias:mapkey')
        elif c < 0.85:
            i = r.choice([x for x in objs if x.kind == 'inst'])
            f = r.choice(['v', 'w'])
            stmts.append(ExprS(Assign(Prop(path(i), f), path(o))))
            # the field may be overwritten later: only use it as a path right away
            o.deep_alias = True
            stmts.append(Print([Str('field'), Bin('==', Prop(path(i), f), path(o))]))
            tags.add('alias:field')
        else:
            v = name('f')
            stmts.append(Let(v, Lambda([], path(o), True)))
            o.paths.append(Call(Var(v), []))
            o.deep_alias = True
            tags.add('alias:closure')

    def mutate():
        o = r.choice(objs)
        if o.kind == 'list':
            c = r.random()
            p = path(o)
            if allow_growth and r.random() < 0.12:
                # a burst of pushes: the list is reallocated several times in a row
                k = r.randint(5, 20)
                base = uniq() * 100
                stmts.append(For('bi', Call(Prop(Num(k), 'times'), []),
                                 [ExprS(Call(Prop(p, 'push'), [Bin('+', Num(base), Var('bi'))]))]))
                o.len += k
                if o.len > o.cap:
                    o.moved = True
                    while o.cap < o.len:
                        o.cap = max(1, o.cap * 2)
                    tags.add('growth')
                    tags.add('burst')
                return
            if c < 0.3:
                if o.len >= o.cap:
                    if not allow_growth:
                        return
                    o.moved = True
                    o.cap = max(1, o.cap * 2)
                    tags.add('growth')
                stmts.append(ExprS(Call(Prop(p, 'push'), [Num(uniq())])))
                o.len += 1
            elif c < 0.45 and o.len > 0:
                stmts.append(ExprS(Call(Prop(p, 'pop'), [])))
                o.len -= 1
            elif c < 0.6:
                if o.len >= o.cap:
                    if not allow_growth:
                        return
                    o.moved = True
                    o.cap = max(1, o.cap * 2)
                    tags.add('growth')
                stmts.append(ExprS(Call(Prop(p, 'insert'), [Num(r.randint(0, o.len)), Num(uniq())])))
                o.len += 1
            elif c < 0.72 and o.len > 0:
                stmts.append(ExprS(Call(Prop(p, 'remove'), [Num(r.randint(0, o.len - 1))])))
                o.len -= 1
            elif c < 0.9 and o.len > 0:
                stmts.append(ExprS(Assign(Index(p, Num(r.randint(0, o.len - 1))), Num(uniq()))))
            elif c < 0.95 or (o.moved and r.random() < 0.5):
                stmts.append(ExprS(Call(Prop(p, 'clear'), [])))
                o.len = 0
        elif o.kind == 'map':
            p = path(o)
            if r.random() < 0.7:
                stmts.append(ExprS(Assign(Index(p, Str('k%d' % r.randint(0, 4))), Num(uniq()))))
            else:
                stmts.append(ExprS(Call(Prop(p, 'set'), [Num(r.randint(0, 3)), Num(uniq())])))
        else:
            stmts.append(ExprS(Assign(Prop(path(o), 'v'), Num(uniq()))))
        tags.add('mutate:' + o.kind)

    def probe():
        c = r.random()
        a = r.choice(objs)
        if c < 0.3:
            b = r.choice(objs)
            stmts.append(Print([Str('eq %d %d' % (a.ident, b.ident)), Bin('==', path(a), path(b)),
                                Bin('!=', path(a), path(a))]))
        elif c < 0.5 and a.kind == 'list':
            stmts.append(Print([Str('list %d' % a.ident), path(a), Call(Prop(path(a), 'len'), [])]))
        elif c < 0.65 and holders:
            mid = r.choice(list(holders))
            m = objs[mid]
            o, tag = r.choice(holders[mid])
            stmts.append(Print([Str('key %d in %d' % (o.ident, mid)), Call(Prop(path(m), 'has'), [path(o)]),
                                Call(Prop(path(m), 'get'), [path(o)])]))
        elif c < 0.8:
            # has / index by identity inside a freshly built list and tuple
            others = r.sample(objs, min(len(objs), 3))
            stmts.append(Print([Str('has %d' % a.ident),
                                Call(Prop(ListLit([path(o) for o in others]), 'has'), [path(a)]),
                                Call(Prop(ListLit([path(o) for o in others]), 'index'), [path(a)]),
                                Call(Prop(TupleLit([path(o) for o in others]), 'has'), [path(a)])]))
        elif a.kind == 'inst':
            stmts.append(Print([Str('inst %d' % a.ident), Prop(path(a), 'v') if False else Bin('==', path(a), path(a))]))
        else:
            stmts.append(Print([Str('len %d' % a.ident), Call(Prop(path(a), 'len'), [])]) if a.kind != 'inst'
                         else Print([Str('self-eq'), Bin('==', path(a), path(a))]))

    for _ in range(r.randint(15, 45)):
        c = r.random()
        if allow_growth and r.random() < 0.15:
            if not hlists or r.random() < 0.2:
                new_hlist()
            elif r.random() < 0.5:
                grow_hlist()
            else:
                probe_hlist()
            continue
        if c < 0.25:
            store_alias()
        elif c < 0.6:
            mutate()
        else:
            probe()
    for o in objs:
        if o.kind == 'list':
            stmts.append(Print([Str('final %d' % o.ident)] + [p for p in o.paths[:4]]))
    for h in hlists:
        stmts.append(Print([Str('final holder %s' % h['var']), Call(Prop(Var(h['var']), 'index'), [h['obj'].paths[0]]),
                            Call(Prop(Var(h['var']), 'len'), [])]))
    dirty = any(o.moved and o.deep_alias for o in objs)
    pos = r.choice(['module', 'fn', 'fn', 'method'])
    if pos != 'module':
        import gen_core
        cls = stmts[0]
        stmts = [cls] + gen_core.wrap_position(stmts[1:], pos)
        # inside a function even plain variables live on the stack; scan_roots rewrites those
    tags.add('pos:' + pos)
    tags.add('stratum:' + ('dirty' if dirty else 'clean'))
    return {'stmts': stmts, 'tags': tags, 'sig_prefix': 'after-list-growth-with-stored-alias: ' if dirty else '',
            'nontrivial': True}


def source(rng):
    import lyast
    return lyast.to_source(case(rng, allow_growth=False)['stmts'])
