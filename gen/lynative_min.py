"""Minimal fallback used only while lynative.py is absent (development)."""
from lyref import LyNative, LyIter, LyList, Refuse, is_int


def lookup(it, obj, name):
    if isinstance(obj, float) and name == 'times':
        def times(it, args):
            n = args[0]
            if not is_int(n) or n < 0:
                raise Refuse('times domain')
            return LyIter(iter([float(i) for i in range(int(n))]))
        return LyNative('times', times, 0, 0, True)
    if isinstance(obj, LyList) and name == 'push':
        def push(it, args):
            args[0].items.extend(args[1:])
            return None
        return LyNative('push', push, 0, None, True)
    if isinstance(obj, LyList) and name == 'len':
        return LyNative('len', lambda it, a: float(len(a[0].items)), 0, 0, True)
    raise Refuse('native %s not in the minimal model' % name)


def iter_of(it, v):
    if isinstance(v, LyList):
        def g():
            i = 0
            while i < len(v.items):
                yield v.items[i]
                i += 1
        return LyIter(g())
    raise Refuse('iter_of')


def install_globals(it):
    pass
