"""C17 workload (2): importing while other fibers exist. A fixed, enumerated
family (no seed): the importer may have launched workers before the import
(finished, parked on a channel, or still runnable), the module body may be
plain, may launch a helper and wait for it, or may import a further module
that does; the import may be whole-module or selected-symbol, and the module
may be imported a second time.

Oracle (history over stdout markers, see checks/c17.py): every module body
prints `<m>: start` and `<m>: end` exactly once, `<m>: end` comes before the
importer's `after <m>` marker, and the values read through the import are the
ones the completed body exported."""
import itertools

WORKERS = ['none', 'finishes', 'parked', 'two']
BODIES = ['plain', 'helper_unbuffered', 'helper_buffered', 'sends_to_helper', 'nested']
FORMS = ['whole', 'selected']
AGAIN = [False, True]


def body(name, kind, inner=None):
    l = ['print("%s: start");' % name, 'export let early_%s = 1;' % name]
    if kind == 'plain':
        l.append('let got = 5;')
    elif kind == 'helper_unbuffered':
        l += ['let ch = chan();', 'fn helper(c) { c <- 5; }', 'launch helper(ch);', 'let got = <-ch;']
    elif kind == 'helper_buffered':
        l += ['let ch = chan(2);', 'fn helper(c) { c <- 2; c <- 3; }', 'launch helper(ch);', 'let got = (<-ch) + (<-ch);']
    elif kind == 'sends_to_helper':
        l += ['let ch = chan();', 'let back = chan();', 'fn helper(c, b) { b <- (<-c) + 1; }', 'launch helper(ch, back);',
              'ch <- 4;', 'let got = <-back;']
    elif kind == 'nested':
        l += ['import self.%s;' % inner, 'print("after %s");' % inner, 'let got = %s.late_%s;' % (inner, inner)]
    l += ['export let late_%s = got;' % name, 'export fn value_%s() { return got * 10; }' % name,
          'print("%s: end");' % name]
    return '\n'.join(l) + '\n'


def cases():
    out = []
    for w, b, f, again in itertools.product(WORKERS, BODIES, FORMS, AGAIN):
        label = 'workers=%s body=%s form=%s again=%s' % (w, b, f, again)
        files = {}
        main = ['print("main: start");']
        if w in ('finishes', 'two'):
            main += ['fn w1() { let x = 1 + 1; }', 'launch w1();']
        if w in ('parked', 'two'):
            main += ['let park = chan();', 'fn w2(c) { <-c; }', 'launch w2(park);']
        if b == 'nested':
            files['inner.lay'] = body('inner', 'helper_unbuffered')
            files['m.lay'] = body('m', 'nested', 'inner')
        else:
            files['m.lay'] = body('m', b)
        if f == 'whole':
            main += ['import self.m;', 'print("after m");', 'print("values", m.early_m, m.late_m, m.value_m());']
        else:
            main += ['import self.m:{early_m, late_m, value_m};', 'print("after m");',
                     'print("values", early_m, late_m, value_m());']
        if again:
            main += ['import self.m as again;', 'print("again", again.late_m);']
        if w in ('parked', 'two'):
            main += ['park <- 1;']
        main += ['print("main: end");']
        files['main.lay'] = '\n'.join(main) + '\n'
        out.append((label, files, b))
    return out


def judge(label, body_kind, outcome, stdout):
    """returns '' when the history is right, else what is wrong"""
    lines = [l for l in stdout.split('\n') if l]
    mods = ['m'] + (['inner'] if body_kind == 'nested' else [])
    if outcome != 'ok':
        return 'outcome %s' % outcome
    for m in mods:
        for mark in ('%s: start' % m, '%s: end' % m):
            n = lines.count(mark)
            if n != 1:
                return 'marker "%s" printed %d times' % (mark, n)
        if 'after %s' % m not in lines:
            return 'importer never continued after importing %s' % m
        if lines.index('%s: end' % m) > lines.index('after %s' % m):
            return 'importer continued before the body of %s had finished' % m
    want = 'values 1 5 50'
    if want not in lines:
        got = [l for l in lines if l.startswith('values')]
        return 'imported values: expected "%s" got %r' % (want, got[:1])
    if 'again=True' in label and 'again 5' not in lines:
        return 'second import: expected "again 5"'
    if lines[-1] != 'main: end':
        return 'main did not reach its end'
    return ''


def named_cases():
    """module names that collide with packages or with each other, and deep package nesting; exact stdout expected"""
    out = []
    std = {'std.lay': 'print("my std");\nexport let x = 1;\n'}
    out.append(('user module named std, then std.math', dict(std, **{
        'main.lay': 'import self.std;\nprint(std.x);\nimport std.math;\nprint(math.abs(-2));\nimport std.math:{abs};\nprint(abs(-3));\n'}),
        ['my std', '1', '2', '3']))
    out.append(('std.math, then user module named std, then std.io.fs', dict(std, **{
        'main.lay': 'import std.math;\nimport self.std as mine;\nprint(mine.x);\nprint(math.abs(-2));\nimport std.io.fs;\nprint("fs ok");\n'}),
        ['my std', '1', '2', 'fs ok']))
    out.append(('user module named math inside a package named std', {
        'std.lay': 'print("pkg std");\nexport let p = 0;\n', 'std/math.lay': 'print("my math");\nexport let pi = 3;\n',
        'main.lay': 'import self.std.math as mine;\nprint(mine.pi);\nimport std.math;\nprint(math.abs(-4));\n'},
        ['pkg std', 'my math', '3', '4']))
    deep = {'a.lay': 'print("a body");\nexport let av = 1;\n', 'a/b.lay': 'print("b body");\nexport let bv = 2;\n',
            'a/b/c.lay': 'print("c body");\nexport let cv = 3;\n', 'a/b/c/d.lay': 'print("d body");\nexport let dv = 4;\n'}
    out.append(('three levels', dict(deep, **{'main.lay': 'import self.a.b.c;\nprint(c.cv);\n'}),
                ['a body', 'b body', 'c body', '3']))
    out.append(('four levels after two', dict(deep, **{
        'main.lay': 'import self.a.b;\nprint(b.bv);\nimport self.a.b.c.d:{dv};\nprint(dv);\nimport self.a;\nprint(a.av);\n'}),
        ['a body', 'b body', '2', 'c body', 'd body', '4', '1']))
    out.append(('same module name in two packages', {
        'm.lay': 'print("root m");\nexport let v = "root";\n', 'p.lay': 'print("p");\nexport let pv = 1;\n',
        'p/m.lay': 'print("p.m");\nexport let v = "nested";\n',
        'main.lay': 'import self.m;\nimport self.p.m as pm;\nprint(m.v, pm.v);\nimport self.m as again;\nprint(again.v);\n'},
        ['root m', 'p', 'p.m', 'root nested', 'root']))
    out.append(('paths whose segments concatenate to the same text', {
        'utils.lay': 'print("utils body");\nexport let who = "flat utils";\n',
        'util.lay': 'print("util body");\nexport let who = "util pkg";\n',
        'util/s.lay': 'print("s body");\nexport let who = "nested s";\n',
        'main.lay': ('import self.utils;\nprint(utils.who);\nimport self.util.s;\nprint(s.who);\nimport self.util.s:{who};\n'
                     'print(who);\nimport self.utils as again;\nprint(again.who);\n')},
        ['utils body', 'flat utils', 'util body', 's body', 'nested s', 'nested s', 'flat utils']))
    out.append(('module objects are per import', {
        'settings.lay': 'print("settings body");\nexport let x = 10;\nexport fn bump() { x = x + 1; return x; }\n',
        'main.lay': ('import self.settings;\nimport self.settings as s2;\nprint(settings.x, s2.x);\nsettings.x = 99;\n'
                     'print(settings.x, s2.x);\nprint(s2.bump());\nimport self.settings as s3;\nprint(s3.x, s2.x, settings.x);\n'
                     'import self.settings:{x};\nprint(x);\n')},
        ['settings body', '10 10', '99 10', '11', '11 10 99', '11']))
    out.append(('imported module fails to compile: failing status, nothing after the import runs', {
        'bad.lay': 'let x = ;\n', 'main.lay': 'print("before");\nimport self.bad;\nprint("after");\n'},
        ['before', '<outcome exit:1>']))
    out.append(('imported module fails to resolve: failing status', {
        'bad.lay': 'print("bad body");\nexport let y = never_declared;\n',
        'main.lay': 'print("before");\nimport self.bad:{y};\nprint("after");\n'},
        ['before', '<outcome exit:1>']))
    out.append(('a std module that does not exist is an import error even when a file of that name sits next to the script', {
        'foo.lay': 'print("user foo body");\nexport let x = 1;\n',
        'main.lay': 'print("before");\nimport std.foo;\nprint(foo.x);\n'},
        ['before', '<outcome error:ImportError>']))
    out.append(('std.math.foo does not load ./math/foo.lay', {
        'math/foo.lay': 'print("user math.foo");\nexport let y = 2;\n',
        'main.lay': 'import std.math;\nprint(math.abs(-1));\nimport std.math.foo;\nprint(foo.y);\n'},
        ['1', '<outcome error:ImportError>']))
    out.append(('module named like its package', {
        'q.lay': 'print("q");\nexport let v = 1;\n', 'q/q.lay': 'print("q.q");\nexport let v = 2;\n',
        'main.lay': 'import self.q.q as inner;\nimport self.q;\nprint(q.v, inner.v);\n'},
        ['q', 'q.q', '1 2']))
    return out
