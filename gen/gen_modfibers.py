"""C17 workload (2): importing while other fibers exist. A fixed, enumerated
family (no seed): the importer may have launched workers before the import
(finished, parked on a channel, or still runnable), the module body may be
plain, may launch a helper and wait for it, or may import a further module
that does; the import may be whole-module or selected-symbol, and the module
may be imported a second time.

Oracle (history over stdout markers, see checks/c17.py): every module body
prints `<m>: start` and `<m>: end` exactly once, `<m>: end` comes before the
importer's `after <m>` marker, and the values read through the import are the
ones the completed body exported."""
import itertools

WORKERS = ['none', 'finishes', 'parked', 'two']
BODIES = ['plain', 'helper_unbuffered', 'helper_buffered', 'sends_to_helper', 'nested']
FORMS = ['whole', 'selected']
AGAIN = [False, True]


def body(name, kind, inner=None):
    l = ['print("%s: start");' % name, 'export let early_%s = 1;' % name]
    if kind == 'plain':
        l.append('let got = 5;')
    elif kind == 'helper_unbuffered':
        l += ['let ch = chan();', 'fn helper(c) { c <- 5; }', 'launch helper(ch);', 'let got = <-ch;']
    elif kind == 'helper_buffered':
        l += ['let ch = chan(2);', 'fn helper(c) { c <- 2; c <- 3; }', 'launch helper(ch);', 'let got = (<-ch) + (<-ch);']
    elif kind == 'sends_to_helper':
        l += ['let ch = chan();', 'let back = chan();', 'fn helper(c, b) { b <- (<-c) + 1; }', 'launch helper(ch, back);',
              'ch <- 4;', 'let got = <-back;']
    elif kind == 'nested':
        l += ['import self.%s;' % inner, 'print("after %s");' % inner, 'let got = %s.late_%s;' % (inner, inner)]
    l += ['export let late_%s = got;' % name, 'export fn value_%s() { return got * 10; }' % name,
          'print("%s: end");' % name]
    return '\n'.join(l) + '\n'


def cases():
    out = []
    for w, b, f, again in itertools.product(WORKERS, BODIES, FORMS, AGAIN):
        label = 'workers=%s body=%s form=%s again=%s' % (w, b, f, again)
        files = {}
        main = ['print("main: start");']
        if w in ('finishes', 'two'):
            main += ['fn w1() { let x = 1 + 1; }', 'launch w1();']
        if w in ('parked', 'two'):
            main += ['let park = chan();', 'fn w2(c) { <-c; }', 'launch w2(park);']
        if b == 'nested':
            files['inner.lay'] = body('inner', 'helper_unbuffered')
            files['m.lay'] = body('m', 'nested', 'inner')
        else:
            files['m.lay'] = body('m', b)
        if f == 'whole':
            main += ['import self.m;', 'print("after m");', 'print("values", m.early_m, m.late_m, m.value_m());']
        else:
            main += ['import self.m:{early_m, late_m, value_m};', 'print("after m");',
                     'print("values", early_m, late_m, value_m());']
        if again:
            main += ['import self.m as again;', 'print("again", again.late_m);']
        if w in ('parked', 'two'):
            main += ['park <- 1;']
        main += ['print("main: end");']
        files['main.lay'] = '\n'.join(main) + '\n'
        out.append((label, files, b))
    return out


def judge(label, body_kind, outcome, stdout):
    """returns '' when the history is right, else what is wrong"""
    lines = [l for l in stdout.split('\n') if l]
    mods = ['m'] + (['inner'] if body_kind == 'nested' else [])
    if outcome != 'ok':
        return 'outcome %s' % outcome
    for m in mods:
        for mark in ('%s: start' % m, '%s: end' % m):
            n = lines.count(mark)
            if n != 1:
                return 'marker "%s" printed %d times' % (mark, n)
        if 'after %s' % m not in lines:
            return 'importer never continued after importing %s' % m
        if lines.index('%s: end' % m) > lines.index('after %s' % m):
            return 'importer continued before the body of %s had finished' % m
    want = 'values 1 5 50'
    if want not in lines:
        got = [l for l in lines if l.startswith('values')]
        return 'imported values: expected "%s" got %r' % (want, got[:1])
    if 'again=True' in label and 'again 5' not in lines:
        return 'second import: expected "again 5"'
    if lines[-1] != 'main: end':
        return 'main did not reach its end'
    return ''
