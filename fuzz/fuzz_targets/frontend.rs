#![no_main]
//! libFuzzer target: any UTF-8 text through the real front end of a fresh Vm
//! (scan, parse, resolve, compile; nothing is executed). Debug assertions and
//! overflow checks are on, ASan is added by cargo-fuzz.
use laythe_native::io::io_native;
use laythe_vm::vm::Vm;
use libfuzzer_sys::fuzz_target;

fuzz_target!(|data: &[u8]| {
  if let Ok(text) = std::str::from_utf8(data) {
    let mut vm = Vm::new(io_native());
    let _ = vm.verif_compile("fuzz.lay", text);
  }
});
