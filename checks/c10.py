#!/usr/bin/env python3
"""C10: object identity is stable under mutation; any value works as a map key."""
import sys
sys.path.insert(0, '/verif/lib')
sys.path.insert(0, '/verif/gen')
import modelcheck
import gen_alias


def main():
    tier = sys.argv[sys.argv.index('--tier') + 1] if '--tier' in sys.argv else 'quick'
    return modelcheck.run(
        'C10', gen_alias.case, tier,
        runs=[('dbg', ['--stack-monitor']), ('rel', []), ('dbg', ['--gc', 'every:2', '--sweep', 'alt'])],
        rule=('straight-line mutation histories (push/pop/insert/remove/index-assign/clear, map set, field writes) '
              'applied through randomly chosen aliases held in variables, nested lists (depth 1-3), map values, map '
              'keys, fields and closures, interleaved with identity probes (==, map has/get with object keys, '
              'list/tuple has/index); the reference model gives every object an immutable identity. Clean stratum: no '
              'list outgrows its capacity while an alias is stored off a plain variable (any divergence is a '
              'violation); dirty stratum (35%): growth with stored aliases, divergences there carry the D6 signature'),
        n_quick=2000, n_thorough=80000, stat_keys=('collections',), requires=[('model_calls', 5000, 100000)])


if __name__ == '__main__':
    sys.exit(main())
