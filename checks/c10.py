#!/usr/bin/env python3
"""C10: object identity is stable under mutation; any value works as a map key."""
import sys
sys.path.insert(0, '/verif/lib')
sys.path.insert(0, '/verif/gen')
import modelcheck
import gen_alias


FIXED_SEED = 424243
FIXED_N = 5000
_B = {}
_W = [None]


def fixed_case(idx):
    import random
    import diffrun
    import lyast
    rng = random.Random(FIXED_SEED * 1000003 + idx)
    case = gen_alias.case(rng, allow_growth=True)
    m = diffrun.model_run(case['stmts'])
    if m is None or 'refused' in m:
        return idx, None, None
    text = lyast.to_source(case['stmts'])
    c = {'id': 'fx%d' % idx, 'files': {'main.lay': text}, 'main': 'main.lay', 'expected': m, 'runs': [('dbg', [])]}
    mm, res = diffrun.run_case(c, _B, _W[0])
    bad = [x for x in mm if x['kind'] == 'violation']
    return idx, (bad[0]['why'] if bad else ''), text


def fixed_corpus(chk, bins, tier):
    """growth with stored aliases on a FIXED corpus: the cases on which the tree shows D6 are listed one by one in
    known_alias_cases.json, so a new failing case is reported even though it involves list growth"""
    import json
    import os
    import vlib
    _B.update(bins)
    _W[0] = os.path.join(vlib.WORK, 'C10', 'fixed')
    os.makedirs(_W[0], exist_ok=True)
    try:
        known = set(json.load(open('/verif/known_alias_cases.json'))['failing'])
    except (OSError, ValueError, KeyError):
        known = set()
    for idx, why, text in vlib.pmap(fixed_case, range(FIXED_N), chunksize=8):
        if why is None:
            continue
        chk.evaluations += 1
        chk.count('fixed_corpus_cases')
        if not why:
            continue
        if idx in known:
            chk.count('fixed_corpus_known_failures')
            f = [x for x in chk.findings['findings'] if x['id'] == 'D6']
            chk.known.setdefault('D6', {'what': f[0]['what_fails'], 'n': 0})
            chk.known['D6']['n'] += 1
        else:
            chk.violation('fixed-corpus alias#%d (not listed in known_alias_cases.json): %s' % (idx, why),
                          {'main.lay': text}, {'idx': idx})


def main():
    if '--make-known' in sys.argv:
        import json
        import os
        import vlib
        _B['dbg'] = vlib.build('dbg')['lyrun']
        _W[0] = vlib.workdir('known_alias')
        failing = sorted(idx for idx, why, text in vlib.pmap(fixed_case, range(FIXED_N), chunksize=8) if why)
        json.dump({'seed': FIXED_SEED, 'n': FIXED_N, 'failing': failing}, open('/verif/known_alias_cases.json', 'w'))
        print(len(failing), 'of', FIXED_N, 'fixed cases show D6')
        return 0
    tier = sys.argv[sys.argv.index('--tier') + 1] if '--tier' in sys.argv else 'quick'
    return modelcheck.run(
        'C10', gen_alias.case, tier,
        runs=[('dbg', ['--stack-monitor']), ('rel', []), ('dbg', ['--gc', 'every:2', '--sweep', 'alt'])],
        rule=('straight-line mutation histories (push/pop/insert/remove/index-assign/clear, map set, field writes) '
              'applied through randomly chosen aliases held in variables, nested lists (depth 1-3), map values, map '
              'keys, fields and closures, interleaved with identity probes (==, map has/get with object keys, '
              'list/tuple has/index); the reference model gives every object an immutable identity. Clean stratum: no '
              'list outgrows its capacity while an alias is stored off a plain variable (any divergence is a '
              'violation); dirty stratum (35%): growth with stored aliases, divergences there carry the D6 signature'),
        n_quick=2000, n_thorough=80000, stat_keys=('collections',), requires=[('model_calls', 5000, 100000)],
        post=fixed_corpus)


if __name__ == '__main__':
    sys.exit(main())
