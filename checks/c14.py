#!/usr/bin/env python3
"""C14: both value representations implement the same language.
(1) self-differential between the tagged-enum and the NaN-boxed build over all
    corpora; (2) IEEE programs checked against the reference model on BOTH
    builds (so both being wrong the same way is still caught); (3) Rust-level
    round-trip of numbers/bools/nil/objects through Value in both builds."""
import json
import os
import random
import subprocess
import sys
sys.path.insert(0, '/verif/lib')
sys.path.insert(0, '/verif/gen')
import selfdiff
import vlib
import diffrun
import lyast
import gen_numbers

_BINS = {}
_WORK = [None]


def ieee_case(args):
    seed, idx = args
    rng = random.Random(seed * 1000003 + idx)
    case = gen_numbers.case(rng)
    m = diffrun.model_run(case['stmts'])
    if m is None or 'refused' in m:
        return {'refused': (m or {}).get('refused')}
    text = lyast.to_source(case['stmts'])
    c = {'id': 'ieee%d' % idx, 'files': {'main.lay': text}, 'main': 'main.lay', 'expected': m,
         'runs': [('dbg', []), ('nan', [])]}
    mm, results = diffrun.run_case(c, _BINS, _WORK[0])
    return {'mism': mm, 'text': text, 'evals': len(results), 'expected': m['out'][-20:]}


def post(chk, bins, tier):
    _BINS.update(bins)
    _WORK[0] = os.path.join(vlib.WORK, 'C14', 'ieee')
    os.makedirs(_WORK[0], exist_ok=True)
    n = 300 if tier == 'quick' else 6000
    for r in vlib.pmap(ieee_case, [(chk.seed, i) for i in range(n)], chunksize=4):
        if 'refused' in r:
            chk.count('ieee_model_refused')
            continue
        chk.evaluations += r['evals']
        chk.count('ieee_programs')
        for m in r['mism']:
            if m['kind'] == 'inconclusive':
                chk.inconclusive.append(m['why'])
            else:
                chk.violation('ieee model (%s): %s' % (m['cfg'], m['why']), {'main.lay': r['text']},
                              {'cfg': m['cfg'], 'expected': r['expected'], 'observed': m['res']})
    # Rust-level round trip
    outs = {}
    for cfg in ('dbg', 'nan'):
        try:
            b = vlib.build(cfg, ('lyrun', 'lyvalue'))['lyvalue']
        except vlib.HarnessError as e:
            chk.inconclusive.append('lyvalue build failed for ' + cfg)
            continue
        nvals = 200000 if tier == 'quick' else 2000000
        p = subprocess.run([b, str(chk.seed + 1), str(nvals)], capture_output=True, text=True, timeout=600)
        try:
            outs[cfg] = json.loads(p.stdout.strip().split('\n')[-1])
        except ValueError:
            chk.violation('value round trip (%s): tool crashed rc=%s %s' % (cfg, p.returncode, p.stderr[-200:]), {}, {'cfg': cfg})
            continue
        chk.evaluations += 1
        chk.count('roundtrip_values_' + cfg, outs[cfg]['numbers'] + outs[cfg]['objects'])
        for prob in outs[cfg]['problems']:
            chk.violation('value round trip (%s): %s' % (cfg, prob), {}, {'cfg': cfg})
    if 'dbg' in outs and 'nan' in outs and outs['dbg']['digest'] != outs['nan']['digest']:
        chk.violation('value round trip: the two representations disagree on the observations digest', {}, outs)
    chk.require('ieee programs', chk.counters.get('ieee_programs', 0), n // 2)


def native_probe_sources():
    """the whole native probe table (normal, boundary and invalid arguments of every collection/string/iterator/number
    native): error paths of natives are where the two representations can disagree on 'same errors'"""
    try:
        import gen_natives
        return [('probe%d' % i, t) for i, t in enumerate(gen_natives._table())]
    except Exception:
        return []


def main():
    tier = sys.argv[sys.argv.index('--tier') + 1] if '--tier' in sys.argv else 'quick'
    variants = [('nan', []), ('nan', ['--gc', 'every:2', '--sweep', 'alt', '--alloc', 'quarantine'])]
    cfgs = ['dbg', 'nan']
    if tier == 'thorough':
        variants += [('nanrel', []), ('rel', []), ('asannan', ['--gc', 'every:3'])]
        cfgs += ['nanrel', 'rel', 'asannan']
    return selfdiff.run(
        'C14', tier, base=('dbg', []), variants=variants,
        rule=('every program of the corpus (fixtures + all generator kinds incl. number-heavy programs) on the '
              'tagged-enum build vs the NaN-boxed build (also under a collection schedule): identical outcome, stdout '
              'and error line; IEEE programs (-0, infinities, NaN, subnormals, 2^53, map keys, has/index, truthiness) '
              'against the reference model on both builds; Rust-level round trip of >= 2*10^5 doubles reachable by '
              'arithmetic, bools, nil, undefined and objects through Value in both builds with a shared digest'),
        n_gen_quick=500, n_gen_thorough=9000, cfgs=cfgs,
        kinds=('numbers', 'nummaps', 'core', 'scope', 'classes', 'exc', 'natives', 'alias', 'chan', 'numbers', 'strings', 'nummaps'),
        stat_keys=('allocs', 'steps'), requires=[('steps', 100000, 2000000)], timeout=90, post=post,
        extra_sources=native_probe_sources(),
        # a crash of one representation where the other raises an error IS this property's business
        skip_baseline_crash=False)


if __name__ == '__main__':
    sys.exit(main())
