#!/usr/bin/env python3
"""C08: fibers make progress; deadlock is reported exactly when nothing can
run. Outcome oracle from the Kahn-network model (determinate networks),
deadlock justification from the recorded history (all networks), logical-time
hang detection (step budget), launch argument / capture delivery."""
import json
import os
import random
import sys

sys.path.insert(0, '/verif/lib')
import vlib
import chancheck
import chanrun

PROP = 'C08'


def delivery_program(rng):
    """launch passes arguments and captured variables; main ends the program"""
    n = rng.randint(1, 4)
    lines = ['let out = chan(%d);' % (n + 2)]
    expect = []
    for i in range(n):
        a, b, k = rng.randint(1, 50), rng.randint(1, 50), rng.randint(1, 50)
        form = rng.choice(['fn', 'closure', 'method', 'nested'])
        if form == 'fn':
            lines.append('fn w%d(a, b, c) { c <- a * 100 + b; }' % i)
            lines.append('launch w%d(%d, %d, out);' % (i, a, b))
            expect.append(a * 100 + b)
        elif form == 'closure':
            lines.append('let k%d = %d;' % (i, k))
            lines.append('let w%d = |a, c| { c <- a * 100 + k%d; };' % (i, i))
            lines.append('launch w%d(%d, out);' % (i, a))
            expect.append(a * 100 + k)
        elif form == 'method':
            lines.append('class W%d { init(k) { self.k = k; } go(a, c) { c <- a * 100 + self.k; } }' % i)
            lines.append('let o%d = W%d(%d);' % (i, i, k))
            lines.append('launch o%d.go(%d, out);' % (i, a))
            expect.append(a * 100 + k)
        else:
            lines.append('fn mk%d(k) { return |a, c| { c <- a * 100 + k; }; }' % i)
            lines.append('launch mk%d(%d)(%d, out);' % (i, k, a))
            expect.append(a * 100 + k)
    lines.append('let got = [];')
    lines.append('for i in %d.times() { got.push(<- out); }' % n)
    lines.append('print(got);')
    # a parked fiber must not keep the program alive
    if rng.random() < 0.5:
        lines.append('let never = chan();')
        lines.append('fn parked(c) { <- c; print("never"); }')
        lines.append('launch parked(never);')
        lines.append('let t = chan(1); fn kick(c) { c <- 0; } launch kick(t); <- t;')
    lines.append('print("main end");')
    return '\n'.join(lines) + '\n', expect


def run_delivery(args):
    seed, idx = args
    rng = random.Random(seed * 7919 + idx)
    text, expect = delivery_program(rng)
    d = os.path.join(chanrun.WORK, 'deliver_%d' % idx)
    os.makedirs(d, exist_ok=True)
    p = os.path.join(d, 'main.lay')
    open(p, 'w').write(text)
    r = vlib.lyrun(chanrun.BINS['dbg'], p, ['--steps', '500000'], timeout=30, cwd=d)
    want = '[' + ', '.join(str(x) for x in expect) + ']\nmain end\n'
    ok = r.outcome == 'ok' and sorted(r.out.split('\n')[0].strip('[]').split(', ')) == sorted(str(x) for x in expect) \
        and r.out.endswith('main end\n') and 'never' not in r.out
    return {'ok': ok, 'text': text, 'outcome': r.outcome, 'detail': r.detail, 'stdout': r.out[-500:], 'stderr': r.err[-500:],
            'want': want}


def main():
    tier = 'quick'
    if '--tier' in sys.argv:
        tier = sys.argv[sys.argv.index('--tier') + 1]
    seed = int(os.environ.get('VERIF_SEED', '0') or 0)
    got, rc = chancheck.evaluate(PROP, tier, seed)
    if got is None:
        return rc
    chk, res = got
    chk.run_witnesses(__import__('chanrun').BINS['dbg'])
    states = set()
    known_nets = chancheck.load_known_networks()
    for r in res:
        if 'skip' in r:
            continue
        net = r['net']
        if r.get('seed') == chancheck.FIXED_SEED:
            # fixed corpus: failures are known only network by network
            run = r['runs'][0]
            chk.evaluations += 1
            chk.count('fixed_corpus_networks')
            kind = chancheck.failure_kind(r, run)
            if kind is None or kind == 'sync-sender-early':
                continue
            listed = known_nets.get(r['stratum'], {}).get(str(r['idx']))
            if listed == kind:
                chk.count('fixed_corpus_known_failures')
                fid = 'D5' if kind == 'panic' else 'D22'
                f = [x for x in chk.findings['findings'] if x['id'] == fid]
                if f:
                    chk.known.setdefault(fid, {'what': f[0]['what_fails'], 'n': 0})
                    chk.known[fid]['n'] += 1
                continue
            chk.violation('fixed-corpus %s#%d: %s on a network that is not listed in known_networks.json (listed: %s)%s' % (
                r['stratum'], r['idx'], kind, listed, ' ' + chancheck.panic_signature(run) if kind == 'panic' else ''),
                {'main.lay': r['text'], 'stdout.txt': run['stdout'], 'stderr.txt': run['stderr']},
                {'stratum': r['stratum'], 'idx': r['idx'], 'kind': kind, 'unjustified': run['unjustified'],
                 'model_main_completes': r['model']['main_done']})
            continue
        model_done = r['model']['main_done']
        for run in r['runs']:
            chk.evaluations += 1
            o = run['outcome']
            chk.count('outcome ' + o.split(':')[0])
            chk.count('context_switches', run['switches'])
            if o in ('timeout', 'harness'):
                chk.inconclusive.append('%s %s_%d' % (o, r['stratum'], r['idx']))
                continue
            for ev in run['sched']:
                states.add(ev)
            files = {'main.lay': r['text'], 'stdout.txt': run['stdout'], 'stderr.txt': run['stderr']}
            info = {'stratum': r['stratum'], 'idx': r['idx'], 'cfg': run['cfg'], 'chans': net['chans'],
                    'model_main_completes': model_done}
            # the two-party synchronous stratum is clean on the repaired tree: nothing there is a known finding
            clean = 'clean-stratum ' if r['stratum'] == 'sync2' else ''
            if o == 'steps':
                chk.violation('hang: step budget exceeded (%d steps for %d operations)' % (run['steps'], r['n_ops']), files, info)
            elif o == 'panic' or o.startswith('signal') or o == 'nostats':
                chk.violation(clean + chancheck.panic_signature(run), files, info)
            elif o == 'deadlock':
                if run['unjustified']:
                    chk.violation(clean + 'spurious-deadlock: ' + '; '.join(sorted(set(chancheck.norm_reason(u) for u in run['unjustified']))),
                                  files, dict(info, reasons=run['unjustified']))
                elif net['srsw'] and model_done:
                    chk.violation(clean + 'spurious-deadlock: the network determines that main completes', files, info)
            elif o == 'ok':
                if net['srsw'] and not model_done:
                    early = [pr for pr in run['problems'] if pr[0] == 'sync-sender-early']
                    if early:
                        # the history itself shows why main got through: a synchronous send returned although nobody
                        # received the value (C07's finding D16); the missed deadlock is its consequence
                        chk.violation('sync-sender-early: %s (main then ran to its end although the network deadlocks)' % early[0][1],
                                      files, info)
                    else:
                        chk.violation('missed-deadlock: main cannot complete in this network but the program exited normally',
                                      files, info)
                if 'E main end' not in run['stdout']:
                    chk.violation('early-exit: normal exit without main reaching its end', files, info)
            else:
                chk.violation('unexpected outcome %s %s' % (o, run['detail']), files, info)
    # launch argument / capture delivery
    nd = 400 if tier == 'quick' else 8000
    for d in vlib.pmap(run_delivery, [(seed, i) for i in range(nd)], chunksize=8):
        chk.evaluations += 1
        chk.count('delivery_programs')
        if not d['ok']:
            chk.violation('delivery: launch arguments/captures or program end: outcome %s %s' % (d['outcome'], d['detail']),
                          {'main.lay': d['text'], 'stdout.txt': d['stdout'], 'stderr.txt': d['stderr']}, {'want': d['want']})
    chk.distinct = states
    chk.rule = ('same 5 network strata as C07; oracle: Kahn-network outcome (SRSW), deadlock justification from the '
                'recorded history (every parked fiber disabled, nothing runnable), step budget as logical-time hang '
                'detector, main-end reached on normal exit, launch argument/capture delivery programs. distinct = '
                'distinct scheduler events (switch a>b with queue length, wake x by y in state s, deadlock at f) observed')
    for r in res[:300]:
        if 'skip' not in r and r['runs'][0]['switches'] > 3:
            chk.sample({'stratum': r['stratum'], 'chans': r['net']['chans'], 'outcome': r['runs'][0]['outcome'],
                        'model_main_completes': r['model']['main_done'], 'sched': list(r['runs'][0]['sched'][:10])}, limit=3)
    chk.require('context switches', chk.counters.get('context_switches', 0), 1000)
    chk.require('deadlocks observed', chk.counters.get('outcome deadlock', 0), 50)
    chk.require('completions observed', chk.counters.get('outcome ok', 0), 50)
    return chk.finish()


if __name__ == '__main__':
    sys.exit(main())
