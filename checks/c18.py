#!/usr/bin/env python3
"""C18: errors are reported faithfully: class, message, call chain, exit status."""
import hashlib
import os
import random
import re
import sys
import zlib

sys.path.insert(0, '/verif/lib')
sys.path.insert(0, '/verif/gen')
import vlib
import diffrun
import lyast
import lyref
import lynative
import gen_trace

PROP = 'C18'
BINS = {}
WORK = [None]
FRAME_RE = re.compile(r'^\s+(.*):(\d+) in (.*)$')


def parse_traceback(err):
    lines = err.split('\n')
    if 'Traceback (most recent call last):' not in lines:
        return None
    i = lines.index('Traceback (most recent call last):')
    frames = []
    last = ''
    for l in lines[i + 1:]:
        m = FRAME_RE.match(l)
        if m:
            path = m.group(1)
            frames.append('%s:%s in %s' % (os.path.basename(path) if path != 'native' else 'native', m.group(2), m.group(3)))
        elif l.strip():
            last = l.strip()
            break
    return frames, last


def one(args):
    seed, idx = args
    rng = random.Random((seed << 20) ^ (idx * 31) ^ zlib.crc32(b'C18'))
    case = gen_trace.exit_case(rng) if idx % 6 == 5 else gen_trace.case(rng)
    stmts = case['stmts']
    # lines are assigned by the printer, so print first
    text = lyast.to_source(stmts, random.Random(rng.random()), comments=0.2, blank=0.25, raw_newlines=0.8)
    lynative.annotate_lambda_names(stmts)
    m = diffrun.model_run(stmts)
    if m is None or 'refused' in m:
        return {'refused': (m or {}).get('refused')}
    d = os.path.join(WORK[0], 'p%d' % idx)
    os.makedirs(d, exist_ok=True)
    path = os.path.join(d, 'main.lay')
    open(path, 'w').write(text)
    mism = []
    evals = 0
    frames_checked = 0
    for cfg in ('dbg', 'rel'):
        r = vlib.lyrun(BINS[cfg], path, ['--steps', '2000000'], timeout=30, cwd=d)
        evals += 1
        if r.outcome in ('timeout', 'harness'):
            mism.append(('inconclusive', cfg, r.outcome))
            continue
        why = None
        out = r.out.replace(d + '/', '')
        if vlib.is_crash(r.outcome):
            why = 'crash: %s %s' % (r.outcome, r.detail)
        elif r.outcome != m['outcome']:
            why = 'outcome: expected %s got %s %s' % (m['outcome'], r.outcome, r.detail)
        else:
            ok, w = diffrun.same_output(m['out'], out)
            if not ok:
                why = 'stdout: ' + w
        if why is None and m['outcome'].startswith('error:'):
            tb = parse_traceback(r.err)
            want = []
            for (p, line, name, native) in m['info']['frames']:
                if native:
                    want.append('native:0 in %s()' % name)
                elif name == 'script':
                    want.append('%s:%d in script' % (os.path.basename(p), line))
                else:
                    want.append('%s:%d in %s()' % (os.path.basename(p), line, name))
            if tb is None:
                why = 'traceback: uncaught error without a traceback on stderr'
            elif tb[0] != want:
                k = 0
                while k < len(want) and k < len(tb[0]) and want[k] == tb[0][k]:
                    k += 1
                why = 'traceback: frame %d: expected %r got %r (of %d/%d frames)' % (
                    k, want[k] if k < len(want) else None, tb[0][k] if k < len(tb[0]) else None, len(want), len(tb[0]))
            else:
                frames_checked += len(want)
                msg = m['info'].get('message')
                if case.get('kind') == 'trace' and isinstance(msg, str) and msg.startswith('msg'):
                    if tb[1] != '%s: %s' % (m['info']['cls'], msg):
                        why = 'traceback: last line expected %r got %r' % ('%s: %s' % (m['info']['cls'], msg), tb[1])
            if why is None and (r.stats or {}).get('exit') != 1:
                why = 'status: uncaught error ended with status %s' % (r.stats or {}).get('exit')
        if why is None and case.get('kind') == 'exit':
            code = case['code']
            if (r.stats or {}).get('exit') != code:
                why = 'status: exit(%d) reported as %s' % (code, (r.stats or {}).get('exit'))
            elif r.rc != (code & 0xff):
                why = 'status: exit(%d) gave process status %s' % (code, r.rc)
        if why is None and m['outcome'] == 'ok' and (r.rc != 0 or (r.stats or {}).get('exit') != 0):
            why = 'status: normal end with status %s' % r.rc
        if why:
            mism.append(('violation', cfg, why, r.brief()))
    return {'mism': mism, 'text': text, 'evals': evals, 'tags': sorted(case['tags']), 'outcome': m['outcome'],
            'frames_checked': frames_checked, 'shape': hashlib.sha1(text.encode()).hexdigest()[:12],
            'expected': {'out': m['out'][-25:], 'outcome': m['outcome'],
                         'frames': [list(f) for f in m['info'].get('frames', [])] if m['outcome'].startswith('error') else None}}


def main():
    tier = sys.argv[sys.argv.index('--tier') + 1] if '--tier' in sys.argv else 'quick'
    chk = vlib.Check(PROP, tier)
    n = int(os.environ.get('VERIF_N', '0')) or (1500 if tier == 'quick' else 60000)
    try:
        BINS['dbg'] = vlib.build('dbg')['lyrun']
        BINS['rel'] = vlib.build('rel')['lyrun']
    except vlib.HarnessError as e:
        sys.stderr.write(str(e) + '\n')
        return 2
    WORK[0] = vlib.workdir(PROP)
    chk.run_witnesses(BINS['dbg'])
    tags = {}
    for r in vlib.pmap(one, [(chk.seed, i) for i in range(n)], chunksize=4):
        if 'refused' in r:
            chk.count('model_refused')
            chk.count('refused: ' + str(r['refused'])[:50])
            continue
        chk.evaluations += r['evals']
        chk.count('programs')
        chk.count('outcome ' + r['outcome'].split(':')[0])
        chk.count('traceback_frames_checked', r['frames_checked'])
        chk.distinct.add(r['shape'])
        for t in r['tags']:
            tags[t] = tags.get(t, 0) + 1
        chk.sample(r['text'][:600], limit=2)
        for m in r['mism']:
            if m[0] == 'inconclusive':
                chk.inconclusive.append('%s %s' % (m[2], m[1]))
                continue
            chk.violation(m[2], {'main.lay': r['text']}, {'cfg': m[1], 'expected': r['expected'], 'observed': m[3]})
    # boundary: a raise far down a long file (line numbers are stored as u16: known finding D26)
    d = os.path.join(WORK[0], 'longfile')
    os.makedirs(d, exist_ok=True)
    for line_no in (300, 65535, 70001):
        p = os.path.join(d, 'raise_on_line_%d.lay' % line_no)
        open(p, 'w').write('\n' * (line_no - 1) + 'raise Error("far");\n')
        r = vlib.lyrun(BINS['rel'], p, [], timeout=60, cwd=d)
        chk.evaluations += 1
        tb = parse_traceback(r.err)
        want = ['raise_on_line_%d.lay:%d in script' % (line_no, line_no)]
        if r.outcome != 'error:Error' or tb is None or tb[0] != want:
            chk.violation('traceback: raise_on_line_%d reported as %r (outcome %s)' % (line_no, tb[0] if tb else None, r.outcome),
                          {'note.txt': 'file with %d empty lines and then: raise Error("far");' % (line_no - 1)},
                          {'expected': want})
    chk.extra['feature_tags'] = tags
    chk.rule = ('call chains of depth 1-10 through functions, methods, static methods, initialisers, let-named and '
                'anonymous lambdas and native callbacks (each/map/reduce), ending in an explicit raise (with or without '
                'an inner error) or an operator/index/arity/not-callable error; caught at the top, in a middle frame '
                '(message, inner, every backTrace line printed) or not at all (stderr traceback parsed and compared '
                'frame by frame: function name and line); layouts with comments and blank lines; every 6th program is '
                'an exit(n) program (n in {0,1,2,3,7,42,255,256,65535}) checked for status and for nothing after the '
                'exit being printed; dbg and rel')
    chk.require('programs', chk.counters.get('programs', 0), n // 2)
    chk.require('traceback frames checked', chk.counters.get('traceback_frames_checked', 0), n)
    return chk.finish()


if __name__ == '__main__':
    sys.exit(main())
