#!/usr/bin/env python3
"""C13: inline caches are transparent. Self-differential between caches
enabled and every lookup forced to miss, also under dense collection
schedules with the LIFO address-reuse allocator (a new class landing on the
address of a collected one), plus the reference model through C03's check."""
import sys
sys.path.insert(0, '/verif/lib')
sys.path.insert(0, '/verif/gen')
import selfdiff


def main():
    tier = sys.argv[sys.argv.index('--tier') + 1] if '--tier' in sys.argv else 'quick'
    variants = [
        ('dbg', []),
        ('rel', []),
        ('dbg', ['--gc', 'every:1', '--sweep', 'alt', '--alloc', 'reuse']),
        ('dbg', ['--gc', 'every:1', '--sweep', 'full', '--alloc', 'reuse']),
        ('rel', ['--gc', 'every:2', '--sweep', 'alt', '--alloc', 'reuse']),
        ('dbg', ['--gc', 'every:1', '--sweep', 'alt', '--alloc', 'quarantine']),
    ]
    if tier == 'thorough':
        variants += [('dbg', ['--gc', 'every:3', '--alloc', 'reuse']), ('dbg', ['--gc', 'bern:0.3:5', '--alloc', 'reuse']),
                     ('asan', ['--gc', 'every:1', '--sweep', 'alt'])]
    return selfdiff.run(
        'C13', tier, base=('dbg', ['--cache-off', '--gc', 'never']), variants=variants,
        rule=('baseline: every inline-cache lookup forced to miss and collection disabled; variants: caches on (dbg, '
              'rel), caches on under collection at every allocation with the LIFO address-reuse allocator (freed class '
              'blocks are handed to the next class), and with the poisoning quarantine; workload: class/call-site '
              'generators (receiver-class sequences at shared sites, classes created and dropped in functions and '
              'loops), the other generators and the repo fixtures; oracle: identical outcome/stdout/error line. '
              'distinct = programs with at least one cache hit'),
        n_gen_quick=500, n_gen_thorough=9000, cfgs=['dbg', 'rel'] + (['asan'] if tier == 'thorough' else []),
        kinds=('classes', 'dynclasses', 'mixins', 'classes', 'scope', 'exc', 'core', 'opcover'),
        stat_keys=('inv_hits', 'prop_hits', 'inv_misses', 'prop_misses', 'inv_clears', 'prop_clears', 'collections',
                   'h_reused'),
        requires=[('inv_hits', 20000, 400000), ('prop_hits', 5000, 100000), ('h_reused', 10000, 200000)], timeout=90)


if __name__ == '__main__':
    sys.exit(main())
