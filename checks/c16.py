#!/usr/bin/env python3
"""C16: no accepted program can crash the runtime.
Outcome monitor (normal exit / exit code / reported deadlock / language error
with traceback are the only allowed endings, in debug and release) over:
(1) the native exerciser, (2) hostile program families, (3) every program of
every other corpus, (4) mutants of valid programs that the front end accepts."""
import os
import random
import re
import sys

sys.path.insert(0, '/verif/lib')
sys.path.insert(0, '/verif/gen')
import vlib
import corpus
import selfdiff
import gen_natcalls
import gen_hostile
import gen_mutate

PROP = 'C16'
BINS = {}
WORK = [None]
ITER_NATIVES = ('Iter.zip', 'Iter.chain', 'List.collect', 'Tuple.collect')


def norm_detail(d):
    return re.sub(r':\s*\d+:\d+:?', '', d)[:140]


def allowed(outcome):
    return outcome == 'ok' or outcome.startswith('exit:') or outcome.startswith('error:') or outcome == 'deadlock' \
        or outcome == 'compile_error'


def native_overflow_site(binpath, path, cwd, steps):
    """where does a native stack overflow recurse? (gdb backtrace at the fault; the laythe_lib function that occurs
    most often among the innermost frames). Returns '' when gdb gives nothing."""
    import re
    import subprocess
    try:
        q = subprocess.run(['gdb', '-batch', '-ex', 'run', '-ex', 'bt 80', '--args', binpath, '--steps', str(steps), path],
                           cwd=cwd, capture_output=True, text=True, timeout=180, errors='replace')
    except (OSError, subprocess.TimeoutExpired):
        return ''
    count = {}
    for m in re.finditer(r'^#\d+\s+\S+ in (laythe_lib::[A-Za-z0-9_:]+?)(?:::\{|\s|<|$)', q.stdout, re.M):
        f = m.group(1).rstrip(':')
        count[f] = count.get(f, 0) + 1
    if not count:
        return ''
    return max(sorted(count), key=lambda k: count[k])


def run_one(args):
    i, sig_prefix, label, text, cfgs, steps = args
    d = os.path.join(WORK[0], '%02d' % (i % 64), 'j%d' % i)
    os.makedirs(d, exist_ok=True)
    p = os.path.join(d, 'main.lay')
    with open(p, 'w', encoding='utf-8', errors='replace') as fh:
        fh.write(text)
    out = []
    for cfg in cfgs:
        opts = ['--steps', str(steps)]
        if cfg == 'dbg':
            opts += ['--stack-monitor']
        r = vlib.lyrun(BINS[cfg], p, opts, timeout=60, cwd=d)
        problem = None
        if r.outcome in ('timeout', 'harness'):
            out.append((cfg, 'inconclusive', r.outcome, None))
            continue
        if not allowed(r.outcome):
            if r.outcome == 'steps':
                problem = 'step budget exceeded'
            else:
                det = norm_detail(r.detail)
                if 'fiber/mod.rs' in det and r.outcome == 'panic':
                    problem = 'SCHED' + det
                elif 'overflowed its stack' in r.err and sig_prefix.startswith(('mutant', 'corpus')):
                    # a native stack overflow in a program nobody wrote by hand: name the recursing native so that
                    # the unguarded str() recursion (D12) is told apart from any other overflow
                    site = native_overflow_site(BINS[cfg], p, d, steps)
                    problem = 'native-stack-overflow in %s' % (site or 'unknown (no backtrace)')
                else:
                    problem = '%s %s' % (r.outcome, det)
        elif r.outcome.startswith('error:') and 'Traceback (most recent call last):' not in r.err:
            problem = 'language error without a traceback'
        elif r.stats and [v for v in r.stats.get('violations', []) if v.startswith(('stack:', 'handler:', 'cache:'))]:
            problem = 'monitor ' + r.stats['violations'][0][:100]
        out.append((cfg, 'violation' if problem else 'held', problem, r.brief() if problem else None))
    try:
        if all(o[1] == 'held' for o in out):
            os.unlink(p)
            os.rmdir(d)
    except OSError:
        pass
    return sig_prefix, label, text, out


def main():
    tier = sys.argv[sys.argv.index('--tier') + 1] if '--tier' in sys.argv else 'quick'
    chk = vlib.Check(PROP, tier)
    try:
        BINS['dbg'] = vlib.build('dbg')['lyrun']
        BINS['rel'] = vlib.build('rel')['lyrun']
        if tier == 'thorough':
            BINS['asan'] = vlib.build('asan')['lyrun']
    except vlib.HarnessError as e:
        sys.stderr.write(str(e) + '\n')
        return 2
    WORK[0] = vlib.workdir(PROP)
    chk.run_witnesses(BINS['dbg'])
    rng = random.Random(chk.seed * 104729 + 7)
    jobs = []
    both = ['dbg', 'rel'] + (['asan'] if tier == 'thorough' else [])
    # (1) native exerciser
    per = int(os.environ.get('VERIF_PER_NATIVE', '0')) or (100 if tier == 'quick' else 1500)
    calls, natives, uncovered = gen_natcalls.cases(rng, per)
    for c in calls:
        flags = ''
        if c['native'] in ITER_NATIVES:
            args = re.search(r'\((.*)\) recv=', c['label']).group(1).split(',') if '(' in c['label'] else []
            if 'form=callback' in c['label'] and not [a for a in args if a]:
                args = ['nil']      # the callback receives the element of [nil]
            if any(a and a not in ('z_it', 'z_ite') and '.iter()' not in a for a in args):
                flags = '[noniter-arg] '
        jobs.append(('native-crash %s %s' % (c['native'], flags), c['label'], c['text'], ['dbg'] if rng.random() < 0.7 else ['rel'], 3000000))
    # (2) hostile families
    fams = gen_hostile.families(rng)
    for label, text in fams:
        jobs.append(('hostile %s ' % label, label, text, both, 60000000))
    # (3) corpora
    n_gen = 1000 if tier == 'quick' else 15000
    kinds = selfdiff.available_kinds()
    for name, text in corpus.generated_sources(chk.seed, n_gen, kinds):
        jobs.append(('corpus %s ' % name.split('_')[0], name, text, ['dbg', 'rel'] if rng.random() < 0.3 else ['dbg'], 20000000))
    # (4) accepted mutants
    seeds = [t for _, t in corpus.generated_sources(chk.seed + 1, 150, kinds) if len(t) < 20000]
    for p, e in corpus.fixture_list('Ok'):
        try:
            t = open(p).read()
            if len(t) < 8000 and 'import' not in t:
                seeds.append(t)
        except OSError:
            pass
    n_mut = 10000 if tier == 'quick' else 200000
    for i in range(n_mut):
        text, how = gen_mutate.mutate(rng.choice(seeds), rng)
        jobs.append(('mutant ', 'mutant %d %s' % (i, how), text, ['dbg'], 2000000))
    res = vlib.pmap(run_one, [(i,) + j for i, j in enumerate(jobs)], chunksize=16)
    natives_hit = set()
    for sig_prefix, label, text, outs in res:
        for cfg, status, problem, brief in outs:
            chk.evaluations += 1
            if status == 'inconclusive':
                if sig_prefix.startswith('mutant') or sig_prefix.startswith('corpus'):
                    chk.count('timeouts_not_judged')
                else:
                    chk.inconclusive.append('%s %s' % (problem, label[:80]))
                continue
            fam = sig_prefix.split(' ')[0]
            chk.count('runs ' + fam)
            if fam == 'native-crash':
                natives_hit.add(sig_prefix.split(' ')[1])
            if status == 'violation':
                if problem.startswith('SCHED'):
                    sig = 'sched-panic: %s woken-state=' % problem[5:]
                elif fam == 'mutant' and problem == 'step budget exceeded':
                    chk.count('mutants_running_long_not_judged')
                    continue
                elif fam == 'corpus' and problem == 'step budget exceeded':
                    # a generated program that loops for ever is a generator matter, not a runtime crash
                    chk.count('corpus_programs_running_long_not_judged')
                    continue
                else:
                    sig = sig_prefix + problem
                chk.violation(sig, {'main.lay': text}, {'label': label, 'cfg': cfg, 'observed': brief})
    chk.distinct = natives_hit | set('hostile ' + l for l, _ in fams)
    chk.extra['natives_exercised'] = len(natives)
    chk.extra['natives_uncovered'] = uncovered
    chk.rule = ('(1) %d natives discovered by scanning NativeMetaBuilder declarations in the repo (%d uncovered), each '
                'called %d times with 0..arity+1 arguments from a 37-value zoo as plain call, bound value, .call and '
                'callback; (2) %d hostile families x dbg/rel (non-callables, wrong receivers, raise of non-errors, '
                'errors in catch and in str(), built-in subclassing/construction, recursion to the frame limit through '
                '18 call shapes in and out of try and fibers, cyclic str, limits, sort comparators, mutation during '
                'iteration, channel misuse, exit kinds); (3) %d generated programs of every kind; (4) %d mutants of '
                'valid programs (those the front end rejects are C15). Allowed endings: normal exit, exit code, reported '
                'deadlock, language error with traceback. distinct = natives exercised + hostile families' % (
                    len(natives), len(uncovered), per, len(fams), n_gen, n_mut))
    chk.samples = [calls[0]['label'], fams[0][0], fams[-1][0]]
    chk.require('native runs', chk.counters.get('runs native-crash', 0), 3000)
    chk.require('hostile runs', chk.counters.get('runs hostile', 0), 300)
    return chk.finish()


if __name__ == '__main__':
    sys.exit(main())
