#!/usr/bin/env python3
"""C02: lexical scoping and closures vs the reference model's cell semantics."""
import sys
sys.path.insert(0, '/verif/lib')
sys.path.insert(0, '/verif/gen')
import modelcheck
import gen_scope


def main():
    tier = sys.argv[sys.argv.index('--tier') + 1] if '--tier' in sys.argv else 'quick'
    return modelcheck.run(
        'C02', gen_scope.case, tier,
        runs=[('dbg', ['--stack-monitor']), ('rel', []), ('dbg', ['--gc', 'every:3', '--sweep', 'alt'])],
        rule=('scope skeletons: nesting of fn/lambda/method/loop/catch to depth 2-5, every variable a unique integer, '
              'closures stored, returned and called after the declaring call returned, factories called twice, '
              'loop-variable vs body-local capture, shadowing; each program at module level or wrapped in '
              'fn/method/lambda; 2 layouts; dbg(+stack monitor), rel, dbg under a dense collection schedule; '
              'non-trivial = at least two scope features present and > 20 model steps'),
        n_quick=1500, n_thorough=60000, layouts=2, stat_keys=('collections', 'objs_freed'),
        requires=[('model_calls', 2000, 50000)])


if __name__ == '__main__':
    sys.exit(main())
