#!/usr/bin/env python3
"""C19: an interactive session behaves like the same declarations in one file."""
import hashlib
import os
import random
import sys
import zlib

sys.path.insert(0, '/verif/lib')
sys.path.insert(0, '/verif/gen')
import vlib
import diffrun
import lyast
import lyref
import gen_repl

PROP = 'C19'
BINS = {}
WORK = [None]


def one_line(stmts):
    return ' '.join(l.strip() for l in lyast.to_source(stmts).split('\n') if l.strip())


def model_session(entries):
    it = lyref.Interp(main_path='repl')
    env = lyref.Env(it.globals)
    it.frames = [lyref.Frame('script', 'repl')]
    it.current_exports = []
    errors = 0
    try:
        for e in entries:
            if e['kind'] == 'compile_error':
                continue
            try:
                it.frames = [lyref.Frame('script', 'repl')]
                for s in e['stmts']:
                    it.exec(s, env)
            except lyref.LyError:
                errors += 1
                if e['kind'] != 'runtime_error':
                    return {'refused': 'unexpected model error in an entry meant to succeed'}
    except lyref.Refuse as ex:
        return {'refused': str(ex)}
    except lyref.StepsEx:
        return {'refused': 'steps'}
    return {'out': it.out, 'errors': errors}


def one(args):
    seed, idx = args
    rng = random.Random((seed << 20) ^ (idx * 17) ^ zlib.crc32(b'C19'))
    case = gen_repl.case(rng)
    entries = case['entries']
    lines = []
    good = []
    for e in entries:
        text = e['text'] if e['kind'] == 'compile_error' else one_line(e['stmts'])
        lines.append(text)
        if e['kind'] == 'ok':
            good.append(text)
    m = model_session(entries)
    if 'refused' in m:
        return {'refused': m['refused']}
    d = os.path.join(WORK[0], 's%d' % idx)
    os.makedirs(d, exist_ok=True)
    session = '\n'.join(lines) + '\n'
    open(os.path.join(d, 'session.txt'), 'w').write(session)
    fpath = os.path.join(d, 'file.lay')
    open(fpath, 'w').write('\n'.join(good) + '\n')
    mism = []
    evals = 0
    n_bad = sum(1 for e in entries if e['kind'] != 'ok')
    for cfg, opts in (('dbg', []), ('rel', []), ('dbg', ['--gc', 'every:2', '--sweep', 'alt', '--alloc', 'reuse'])):
        r = vlib.lyrun(BINS[cfg], None, opts + ['--steps', '5000000'], stdin_text=session, timeout=30, cwd=d)
        evals += 1
        if r.outcome in ('timeout', 'harness'):
            mism.append(('inconclusive', cfg, r.outcome))
            continue
        why = None
        out = r.out.replace('laythe:> ', '')
        if vlib.is_crash(r.outcome) or r.outcome == 'steps':
            why = 'session crashed: %s %s' % (r.outcome, r.detail)
        elif r.outcome != 'ok':
            why = 'session ended with %s' % r.outcome
        else:
            ok, w = diffrun.same_output(m['out'], out)
            if not ok:
                why = 'session stdout vs model: ' + w
        if why is None and not opts:
            f = vlib.lyrun(BINS[cfg], fpath, ['--steps', '5000000'], timeout=30, cwd=d)
            evals += 1
            if f.outcome == 'ok':
                ok, w = diffrun.same_output(out.split('\n')[:-1] if out.endswith('\n') else out.split('\n'), f.out)
                if not ok:
                    why = 'session vs file: ' + w
            elif f.outcome not in ('timeout', 'harness'):
                why = 'file run of the good lines ended with %s %s' % (f.outcome, f.detail)
        if why:
            mism.append(('violation', cfg, why, r.brief(), opts))
    return {'mism': mism, 'session': session, 'file': '\n'.join(good) + '\n', 'evals': evals, 'tags': sorted(case['tags']),
            'entries': len(entries), 'bad': n_bad, 'shape': hashlib.sha1(session.encode()).hexdigest()[:12],
            'expected': m['out'][-30:]}


def main():
    tier = sys.argv[sys.argv.index('--tier') + 1] if '--tier' in sys.argv else 'quick'
    chk = vlib.Check(PROP, tier)
    n = int(os.environ.get('VERIF_N', '0')) or (1000 if tier == 'quick' else 40000)
    try:
        BINS['dbg'] = vlib.build('dbg')['lyrun']
        BINS['rel'] = vlib.build('rel')['lyrun']
    except vlib.HarnessError as e:
        sys.stderr.write(str(e) + '\n')
        return 2
    WORK[0] = vlib.workdir(PROP)
    tags = {}
    for r in vlib.pmap(one, [(chk.seed, i) for i in range(n)], chunksize=4):
        if 'refused' in r:
            chk.count('model_refused')
            chk.count('refused: ' + str(r['refused'])[:60])
            continue
        chk.evaluations += r['evals']
        chk.count('sessions')
        chk.count('entries', r['entries'])
        chk.count('failing_entries', r['bad'])
        if r['entries'] >= 5:
            chk.distinct.add(r['shape'])
        for t in r['tags']:
            tags[t] = tags.get(t, 0) + 1
        chk.sample(r['session'][:500], limit=2)
        for m in r['mism']:
            if m[0] == 'inconclusive':
                chk.inconclusive.append('%s %s' % (m[2], m[1]))
                continue
            chk.violation(m[2], {'session.txt': r['session'], 'file.lay': r['file']},
                          {'cfg': m[1], 'opts': m[4], 'expected': r['expected'], 'observed': m[3]})
    chk.extra['feature_tags'] = tags
    chk.rule = ('sessions of 5-60 one-line entries mixing let/fn/class definitions, instances, calls into definitions '
                'from any earlier line, functions with property/invoke sites over earlier objects (cache slots), classes '
                'extended on later lines, closures over session variables, assignments, entries that fail to compile '
                '(syntax, undeclared, redeclaration) and entries that raise; after every failing entry a probe uses '
                'earlier definitions. Oracles: session stdout == reference model; session stdout == the good lines run '
                'as one file; dbg, rel and dbg under a collection schedule with address reuse')
    chk.require('sessions', chk.counters.get('sessions', 0), n // 2)
    chk.require('failing entries', chk.counters.get('failing_entries', 0), n // 4)
    return chk.finish()


if __name__ == '__main__':
    sys.exit(main())
