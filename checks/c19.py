#!/usr/bin/env python3
"""C19: an interactive session behaves like the same declarations in one file."""
import hashlib
import os
import random
import sys
import zlib

sys.path.insert(0, '/verif/lib')
sys.path.insert(0, '/verif/gen')
import vlib
import diffrun
import lyast
import lyref
import gen_repl

PROP = 'C19'
BINS = {}
WORK = [None]


def one_line(stmts):
    return ' '.join(l.strip() for l in lyast.to_source(stmts).split('\n') if l.strip())


def model_session(entries):
    it = lyref.Interp(main_path='repl')
    env = lyref.Env(it.globals)
    it.frames = [lyref.Frame('script', 'repl')]
    it.current_exports = []
    errors = 0
    try:
        for e in entries:
            if e['kind'] == 'compile_error':
                continue
            try:
                it.frames = [lyref.Frame('script', 'repl')]
                for s in e['stmts']:
                    it.exec(s, env)
            except lyref.LyError:
                errors += 1
                if e['kind'] != 'runtime_error':
                    return {'refused': 'unexpected model error in an entry meant to succeed'}
    except lyref.Refuse as ex:
        return {'refused': str(ex)}
    except lyref.StepsEx:
        return {'refused': 'steps'}
    return {'out': it.out, 'errors': errors}


FIXED_SEED = 190019
FIXED_N = 240
KNOWN_SESSIONS = '/verif/known_repl_sessions.json'
SEVERITY = {'': 0, 'deadlock-report': 1, 'stdout': 2, 'crash': 3}


def failure_kind(why):
    if not why:
        return ''
    if 'same stdout, but the session reports' in why:
        return 'deadlock-report'
    if 'crashed' in why:
        return 'crash'
    return 'stdout'


def fixed_session(idx):
    """fixed, seed-independent corpus of sessions in which main also SENDS to fibers launched on earlier lines"""
    r = one_chan(FIXED_SEED, idx, kinds=('producer', 'echo', 'accumulate'), cfgs=(('dbg', []),), tag='fx')
    if 'refused' in r:
        return idx, None, None
    why = ''
    for m in r['mism']:
        if m[0] == 'violation' and SEVERITY[failure_kind(m[2])] > SEVERITY[failure_kind(why)]:
            why = m[2]
    return idx, why, r['session']


def one_chan(seed, idx, kinds=('producer',), cfgs=None, tag='c'):
    """fibers that live across prompt lines; oracle: the same lines as one file"""
    rng = random.Random((seed << 20) ^ (idx * 19) ^ zlib.crc32(b'C19chan'))
    case = gen_repl.chan_case(rng, kinds)
    d = os.path.join(WORK[0], '%s%d' % (tag, idx))
    os.makedirs(d, exist_ok=True)
    session = '\n'.join(case['lines']) + '\n'
    open(os.path.join(d, 'session.txt'), 'w').write(session)
    fpath = os.path.join(d, 'file.lay')
    open(fpath, 'w').write(session)
    mism = []
    evals = 1
    f = vlib.lyrun(BINS['dbg'], fpath, ['--steps', '5000000'], timeout=30, cwd=d)
    if f.outcome != 'ok':
        # the generator only builds networks that terminate; anything else in file mode is C07/C08's business
        return {'refused': 'file run of a channel session ended with ' + f.outcome}
    for cfg, opts in (cfgs or (('dbg', []), ('rel', []), ('dbg', ['--gc', 'every:2', '--sweep', 'alt', '--alloc', 'reuse']))):
        r = vlib.lyrun(BINS[cfg], None, opts + ['--steps', '5000000'], stdin_text=session, timeout=30, cwd=d)
        evals += 1
        if r.outcome in ('timeout', 'harness'):
            mism.append(('inconclusive', cfg, r.outcome))
            continue
        out = r.out.replace('laythe:> ', '')
        why = None
        if vlib.is_crash(r.outcome) or r.outcome == 'steps':
            why = 'channel session crashed: %s %s' % (r.outcome, r.detail)
        elif r.outcome not in ('ok', 'deadlock'):
            why = 'channel session ended with %s' % r.outcome
        else:
            ok, w = diffrun.same_output(f.out.split('\n')[:-1] if f.out.endswith('\n') else f.out.split('\n'), out)
            if not ok:
                why = 'channel session vs file: stdout: ' + w
            elif r.outcome == 'deadlock':
                why = ('channel session vs file: same stdout, but the session reports %d deadlock(s) on stderr that '
                       'the file run does not have' % r.err.count('Fatal error deadlock'))
        if why:
            mism.append(('violation', cfg, why, r.brief(), opts))
    return {'mism': mism, 'session': session, 'file': session, 'evals': evals,
            'tags': sorted(case['tags']) + ['fibers_across_lines'], 'entries': len(case['lines']), 'bad': 0,
            'shape': hashlib.sha1(session.encode()).hexdigest()[:12], 'expected': f.out.split('\n')[-30:]}


def one(args):
    seed, idx = args
    if idx % 5 == 4:
        return one_chan(seed, idx)
    rng = random.Random((seed << 20) ^ (idx * 17) ^ zlib.crc32(b'C19'))
    case = gen_repl.case(rng)
    entries = case['entries']
    lines = []
    good = []
    for e in entries:
        text = e['text'] if e['kind'] == 'compile_error' else one_line(e['stmts'])
        lines.append(text)
        if e['kind'] == 'ok':
            good.append(text)
        elif e.get('file_stmts'):
            # the definitions an entry made before it failed
            good.append(one_line(e['file_stmts']))
    m = model_session(entries)
    if 'refused' in m:
        return {'refused': m['refused']}
    d = os.path.join(WORK[0], 's%d' % idx)
    os.makedirs(d, exist_ok=True)
    session = '\n'.join(lines) + '\n'
    open(os.path.join(d, 'session.txt'), 'w').write(session)
    fpath = os.path.join(d, 'file.lay')
    open(fpath, 'w').write('\n'.join(good) + '\n')
    mism = []
    evals = 0
    n_bad = sum(1 for e in entries if e['kind'] != 'ok')
    for cfg, opts in (('dbg', []), ('rel', []), ('dbg', ['--gc', 'every:2', '--sweep', 'alt', '--alloc', 'reuse'])):
        r = vlib.lyrun(BINS[cfg], None, opts + ['--steps', '5000000'], stdin_text=session, timeout=30, cwd=d)
        evals += 1
        if r.outcome in ('timeout', 'harness'):
            mism.append(('inconclusive', cfg, r.outcome))
            continue
        why = None
        out = r.out.replace('laythe:> ', '')
        if vlib.is_crash(r.outcome) or r.outcome == 'steps':
            why = 'session crashed: %s %s' % (r.outcome, r.detail)
        elif r.outcome != 'ok':
            why = 'session ended with %s' % r.outcome
        else:
            ok, w = diffrun.same_output(m['out'], out)
            if not ok:
                why = 'session stdout vs model: ' + w
        if why is None and not opts:
            f = vlib.lyrun(BINS[cfg], fpath, ['--steps', '5000000'], timeout=30, cwd=d)
            evals += 1
            if f.outcome == 'ok':
                ok, w = diffrun.same_output(out.split('\n')[:-1] if out.endswith('\n') else out.split('\n'), f.out)
                if not ok:
                    why = 'session vs file: ' + w
            elif f.outcome not in ('timeout', 'harness'):
                why = 'file run of the good lines ended with %s %s' % (f.outcome, f.detail)
        if why:
            mism.append(('violation', cfg, why, r.brief(), opts))
    return {'mism': mism, 'session': session, 'file': '\n'.join(good) + '\n', 'evals': evals, 'tags': sorted(case['tags']),
            'entries': len(entries), 'bad': n_bad, 'shape': hashlib.sha1(session.encode()).hexdigest()[:12],
            'expected': m['out'][-30:]}


IMPORT_FILES = {
    'bad.lay': 'export let x = ;\n',
    'bad2.lay': 'export let y = never_declared;\n',
    'good.lay': ('export class G { init() { self.v = 5; } get() { return self.v; } }\n'
                 'export fn use(g) { return g.get() + g.v; }\n'),
    'tiny.lay': 'export fn twice(x) { return x * 2; }\n',
    'good2.lay': ('export class H { init() { self.w = 7; } twice() { return self.w * 2; } }\n'
                  'export fn probe(h) { return h.twice() + h.w; }\n'),
}
IMPORT_SESSIONS = [
    ('bad then good', ['import self.bad;', 'import self.good:{G, use};', 'let g = G();', 'print(use(g));'], ['10']),
    ('two bad then two good', ['import self.bad;', 'import self.bad2;', 'import self.good:{G, use};',
                               'import self.good2:{H, probe};', 'print(use(G()), probe(H()));'], ['10 21']),
    ('good, bad, good2, use both', ['import self.good:{G, use};', 'print(use(G()));', 'import self.bad;',
                                    'import self.good2;', 'print(good2.probe(good2.H()), use(G()));'], ['10', '21 10']),
    ('local sites, bad, good', ['class L { init() { self.q = 1; } m() { return self.q; } }', 'fn lf(o) { return o.m() + o.q; }',
                                'print(lf(L()));', 'import self.bad2;', 'import self.good;', 'print(good.use(good.G()), lf(L()));'],
     ['2', '10 2']),
    ('missing module, then good', ['import self.nothere;', 'import self.good:{G, use};', 'print(use(G()));'], ['10']),
    ('bad twice, good twice', ['import self.bad;', 'import self.bad;', 'import self.good;', 'import self.good as again;',
                               'print(good.use(again.G()));'], ['10']),
]


def gen_import_sessions(seed, n):
    """Generated sessions: call and property sites on a class are defined and warmed on early lines, a file module
    (with fewer or more cache sites than the session so far) is imported in the middle, then new sites with other
    member names on the same class are defined and used next to the old ones. Every printed value is a constant
    known here, so the expected transcript needs no model."""
    import random
    out = []
    for j in range(n):
        r = random.Random('c19imp:%s:%d' % (seed, j))
        nm = r.randint(2, 5)
        cls = 'class P { init() { %s } %s }' % (
            ' '.join('self.f%d = %d;' % (k, 200 + k) for k in range(nm)),
            ' '.join('m%d() { return %d; }' % (k, 100 + k) for k in range(nm)))
        lines, want, fns = [cls, 'let p = P();'], [], []

        def new_site():
            k = r.randrange(nm)
            name = 's%d' % len(fns)
            if r.random() < 0.6:
                lines.append('fn %s(o) { return o.m%d(); }' % (name, k))
                fns.append((name, 100 + k))
            else:
                lines.append('fn %s(o) { return o.f%d; }' % (name, k))
                fns.append((name, 200 + k))

        def use(k=None):
            picks = [r.choice(fns) for _ in range(r.randint(1, 3))] if k is None else [fns[k]]
            lines.append('print(%s);' % ', '.join('%s(p)' % a for a, _ in picks))
            want.append(' '.join(str(v) for _, v in picks))

        for _ in range(r.randint(1, 4)):
            new_site()
            use(len(fns) - 1)
        for _ in range(r.randint(1, 3)):
            mod = r.choice(['good', 'good2', 'tiny'])
            form = r.choice(['import self.%s;', 'import self.%s as mod%d;' % ('%s', len(lines))])
            lines.append(form % mod)
            if mod == 'tiny' and r.random() < 0.5:
                alias = 'tiny' if ' as ' not in lines[-1] else lines[-1].split(' as ')[1].rstrip(';')
                lines.append('print(%s.twice(4));' % alias)
                want.append('8')
            for _ in range(r.randint(1, 4)):
                new_site()
                use(len(fns) - 1)
                if r.random() < 0.7:
                    use()
        use()
        out.append(('generated import session %d' % j, lines, want))
    return out


def import_session(args):
    i, label, lines, want = args
    bad = ''
    for cfg in ('dbg', 'rel'):
        d = os.path.join(WORK[0], 'imp%d_%s' % (i, cfg))
        os.makedirs(d, exist_ok=True)
        for k, v in IMPORT_FILES.items():
            open(os.path.join(d, k), 'w').write(v)
        session = '\n'.join(lines) + '\n'
        r = vlib.lyrun(BINS[cfg], None, ['--steps', '5000000'], stdin_text=session, timeout=30, cwd=d)
        if r.outcome in ('timeout', 'harness'):
            return label, None, session
        got = [l for l in r.out.replace('laythe:> ', '').split('\n') if l]
        if vlib.is_crash(r.outcome):
            bad = bad or '%s: session crashed: %s %s' % (cfg, r.outcome, r.detail)
        elif got != want:
            bad = bad or '%s: stdout %r, expected %r' % (cfg, got, want)
    return label, bad, session


def import_sessions(chk):
    """prompt sessions that import modules which fail to compile before modules that work"""
    n_gen = 60 if chk.tier == 'quick' else 1500
    jobs = [(i, label, lines, want) for i, (label, lines, want) in
            enumerate(IMPORT_SESSIONS + gen_import_sessions(os.environ.get('VERIF_SEED', '0'), n_gen))]
    for label, bad, session in vlib.pmap(import_session, jobs, chunksize=1):
        if bad is None:
            chk.inconclusive.append('import session did not finish: ' + label)
            continue
        chk.evaluations += 2
        chk.count('import_sessions')
        if bad:
            files = dict(IMPORT_FILES)
            files['session.txt'] = session
            chk.violation('import session [%s]: %s' % (label, bad), files, {'label': label})


def fixed_corpus(chk):
    import json
    try:
        known = {int(k): v for k, v in json.load(open(KNOWN_SESSIONS))['failing'].items()}
    except (OSError, ValueError, KeyError):
        known = {}
    for idx, why, session in vlib.pmap(fixed_session, range(FIXED_N), chunksize=4):
        if why is None:
            chk.count('fixed_sessions_file_run_not_ok (C07/C08 territory)')
            continue
        chk.evaluations += 2
        chk.count('fixed_channel_sessions')
        kind = failure_kind(why)
        if not kind:
            continue
        if idx in known and SEVERITY[kind] <= SEVERITY[known[idx]]:
            chk.count('fixed_channel_sessions_known_failures')
            f = [x for x in chk.findings['findings'] if x['id'] == 'D47']
            chk.known.setdefault('D47', {'what': f[0]['what_fails'] if f else 'fibers across prompt lines', 'n': 0})
            chk.known['D47']['n'] += 1
        else:
            chk.violation('fixed-corpus channel session#%d (%s in known_repl_sessions.json): %s' % (
                idx, 'listed as ' + known[idx] if idx in known else 'not listed', why),
                {'session.txt': session, 'file.lay': session}, {'idx': idx})


def main():
    if '--make-known' in sys.argv:
        import json
        BINS['dbg'] = vlib.build('dbg')['lyrun']
        WORK[0] = vlib.workdir('known_repl')
        failing = {}
        for idx, why, session in vlib.pmap(fixed_session, range(FIXED_N), chunksize=4):
            if why:
                failing[str(idx)] = failure_kind(why)
        json.dump({'seed': FIXED_SEED, 'n': FIXED_N, 'failing': failing}, open(KNOWN_SESSIONS, 'w'), indent=0, sort_keys=True)
        print(len(failing), 'of', FIXED_N, 'fixed channel sessions show D47')
        return 0
    tier = sys.argv[sys.argv.index('--tier') + 1] if '--tier' in sys.argv else 'quick'
    chk = vlib.Check(PROP, tier)
    n = int(os.environ.get('VERIF_N', '0')) or (1000 if tier == 'quick' else 40000)
    try:
        BINS['dbg'] = vlib.build('dbg')['lyrun']
        BINS['rel'] = vlib.build('rel')['lyrun']
    except vlib.HarnessError as e:
        sys.stderr.write(str(e) + '\n')
        return 2
    WORK[0] = vlib.workdir(PROP)
    chk.run_witnesses(BINS['dbg'])
    fixed_corpus(chk)
    import_sessions(chk)
    tags = {}
    for r in vlib.pmap(one, [(chk.seed, i) for i in range(n)], chunksize=4):
        if 'refused' in r:
            chk.count('model_refused')
            chk.count('refused: ' + str(r['refused'])[:60])
            continue
        chk.evaluations += r['evals']
        chk.count('sessions')
        chk.count('entries', r['entries'])
        chk.count('failing_entries', r['bad'])
        if r['entries'] >= 5:
            chk.distinct.add(r['shape'])
        for t in r['tags']:
            tags[t] = tags.get(t, 0) + 1
        chk.sample(r['session'][:500], limit=2)
        for m in r['mism']:
            if m[0] == 'inconclusive':
                chk.inconclusive.append('%s %s' % (m[2], m[1]))
                continue
            chk.violation(m[2], {'session.txt': r['session'], 'file.lay': r['file']},
                          {'cfg': m[1], 'opts': m[4], 'expected': r['expected'], 'observed': m[3]})
    chk.extra['feature_tags'] = tags
    chk.rule = ('sessions of 5-60 one-line entries mixing let/fn/class definitions, instances, calls into definitions '
                'from any earlier line, functions with property/invoke sites over earlier objects (cache slots), classes '
                'extended on later lines, closures over session variables, assignments, entries that fail to compile '
                '(syntax, undeclared, redeclaration), entries that raise, and entries that define a function with '
                'call sites and then raise; after every failing entry a probe uses earlier definitions; every fifth '
                'session launches fibers on one line and talks to them over channels on later lines (oracle: same '
                'lines as one file). Oracles: session stdout == reference model; session stdout == the good lines run '
                'as one file; dbg, rel and dbg under a collection schedule with address reuse')
    chk.require('sessions', chk.counters.get('sessions', 0), n // 2)
    chk.require('failing entries', chk.counters.get('failing_entries', 0), n // 4)
    chk.require('sessions with fibers across lines', tags.get('fibers_across_lines', 0), n // 10)
    chk.require('entries that define and then fail', tags.get('define_then_fail', 0), n // 20)
    return chk.finish()


if __name__ == '__main__':
    sys.exit(main())
