#!/usr/bin/env python3
"""C04: exceptions transfer control to the right handler and preserve state."""
import sys
sys.path.insert(0, '/verif/lib')
sys.path.insert(0, '/verif/gen')
import modelcheck
import gen_exc


def extra(r):
    v = [x for x in (r.stats or {}).get('violations', []) if x.startswith('handler:')]
    return ('monitor: ' + v[0]) if v else None


def main():
    tier = sys.argv[sys.argv.index('--tier') + 1] if '--tier' in sys.argv else 'quick'
    return modelcheck.run(
        'C04', gen_exc.case, tier,
        runs=[('dbg', ['--stack-monitor']), ('rel', ['--stack-monitor'])],
        rule=('try/catch at module level, in functions of arity 0-4 with locals before/after, methods, initialisers, '
              'loops, nested 1-3 deep, callbacks run by map/each/reduce/filter; raises: explicit (builtin and user '
              'subclasses), operator/arity/native errors, 1-3 frames deep; catch filters none/exact/other with '
              'fall-through, rethrow and raise-in-catch; exits by completion, break, continue, return, nested; '
              'every variable in scope is a unique integer printed after each try; online monitor: handler depth == '
              'live depth at every PushHandler, no live handler of a frame at its Return'),
        n_quick=2000, n_thorough=100000, layouts=2, stat_keys=('handler_pushes',),
        requires=[('handler_pushes', 2000, 50000), ('model_unwinds', 500, 15000)], extra_check=extra)


if __name__ == '__main__':
    sys.exit(main())
