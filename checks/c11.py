#!/usr/bin/env python3
"""C11: built-in collections, strings and iterators vs their models.
Probe table over every native (normal, boundary and invalid arguments) plus
seeded random iterator pipelines and stateful collection operation sequences,
each run on the VM and on the reference models (lynative)."""
import os
import random
import sys

sys.path.insert(0, '/verif/lib')
sys.path.insert(0, '/verif/gen')
import vlib
import lyast
import test_lynative as T

PROP = 'C11'
BINS = {}
WORK = [None]


def run_probe(args):
    idx, name, mode, src, model = args
    d = WORK[0]
    path = os.path.join(d, 'p%05d.lay' % idx)
    with open(path, 'w', encoding='utf-8') as f:
        f.write(src)
    out = []
    for cfg in BINS:
        r = vlib.lyrun(BINS[cfg], path, ['--steps', '20000000'], timeout=60, cwd=d)
        lines = r.out.split('\n')
        if lines and lines[-1] == '':
            lines.pop()
        out.append((cfg, r.outcome, r.detail, lines, r.err[-600:]))
    return idx, out


def main():
    tier = sys.argv[sys.argv.index('--tier') + 1] if '--tier' in sys.argv else 'quick'
    chk = vlib.Check(PROP, tier)
    try:
        BINS['dbg'] = vlib.build('dbg')['lyrun']
        BINS['rel'] = vlib.build('rel')['lyrun']
        if tier == 'thorough':
            BINS['nan'] = vlib.build('nan')['lyrun']
    except vlib.HarnessError as e:
        sys.stderr.write(str(e) + '\n')
        return 2
    WORK[0] = vlib.workdir(PROP)
    chk.run_witnesses(BINS['dbg'])
    T.PROBES[:] = []
    for f in (T.index_probes, T.number_probes, T.string_probes, T.bool_nil_probes, T.list_probes, T.sort_probes,
              T.tuple_probes, T.map_probes, T.iter_probes, T.callable_probes, T.kind_arity_probes,
              T.case_mapping_probes, T.parse_fuzz_probes):
        f()
    n_table = len(T.PROBES)
    nf = int(os.environ.get('VERIF_N', '0')) or (400 if tier == 'quick' else 12000)
    T.pipeline_fuzz_probes(nf, 1000 + chk.seed)
    T.collection_fuzz_probes(nf, 5000 + chk.seed)
    jobs = []
    models = {}
    for i, p in enumerate(T.PROBES):
        src = lyast.to_source(p.stmts)
        try:
            model = T.split_lines(T.run_model(p.stmts))
        except RecursionError:
            model = {'out': [], 'outcome': 'refuse', 'cls': None, 'why': 'python recursion'}
        except Exception as e:
            chk.inconclusive.append('model error on %s: %r' % (p.name, e))
            continue
        models[i] = (p, src, model)
        jobs.append((i, p.name, p.mode, src, model))
    res = vlib.pmap(run_probe, jobs, chunksize=8)
    natives = set()
    for idx, runs in res:
        p, src, model = models[idx]
        for cfg, outcome, detail, lines, err in runs:
            chk.evaluations += 1
            if outcome in ('timeout', 'harness'):
                chk.inconclusive.append('%s %s' % (outcome, p.name))
                continue
            if model['outcome'] in ('refuse', 'steps'):
                chk.count('model_refused')
                # whatever the model printed before refusing must still agree (unless the VM crashed: C16)
                if not vlib.is_crash(outcome) and lines[:len(model['out'])] != model['out']:
                    chk.violation('output before the model refused differs in %s' % p.name, {'main.lay': src},
                                  {'cfg': cfg, 'expected_prefix': model['out'][-20:], 'observed': lines[-20:]})
                continue
            chk.count('probes_decided')
            want_outcome = 'ok' if model['outcome'] == 'ok' else ('error:' + str(model['cls']))
            if vlib.is_crash(outcome):
                chk.violation('crash in %s: %s %s' % (p.name.split(' ')[0], outcome, detail), {'main.lay': src},
                              {'cfg': cfg, 'probe': p.name, 'stderr': err})
            elif outcome != want_outcome:
                chk.violation('outcome in probe "%s": expected %s got %s %s' % (p.name, want_outcome, outcome, detail),
                              {'main.lay': src}, {'cfg': cfg, 'probe': p.name, 'expected': model['out'][-20:], 'observed': lines[-20:]})
            elif lines != model['out']:
                k = 0
                while k < len(lines) and k < len(model['out']) and lines[k] == model['out'][k]:
                    k += 1
                chk.violation('stdout in probe "%s" line %d: expected %r got %r' % (
                    p.name, k + 1, model['out'][k] if k < len(model['out']) else None, lines[k] if k < len(lines) else None),
                    {'main.lay': src}, {'cfg': cfg, 'probe': p.name})
            if cfg == 'dbg':
                chk.distinct.add(p.name)
    chk.count('table_probes', n_table)
    chk.count('fuzz_probes', len(T.PROBES) - n_table)
    chk.rule = ('probe table over every List/Map/Tuple/String/Iter/Number/callable native with normal, boundary '
                '(0, len-1, len, -len, -len-1, 0.5, NaN, inf, 2^53...) and invalid arguments, wrong arity and kinds, '
                'multi-byte strings, callbacks that print/raise; + %d seeded random iterator pipelines (shared sources, '
                'interleaved advancing, mutation in between) and %d stateful collection operation sequences; each on '
                '%s; oracle: python models of sequence/map/stream semantics (exact stdout and error class; receiver '
                're-probed after failing calls)' % (nf, nf, '/'.join(BINS)))
    chk.samples = [models[i][1][:500] for i in list(models)[:2]]
    chk.require('probes decided', chk.counters.get('probes_decided', 0), 2000)
    return chk.finish()


if __name__ == '__main__':
    sys.exit(main())
