#!/usr/bin/env python3
"""C03: classes (construction, fields, dispatch, inheritance, super, bound
methods, field-shadows-method, property errors) vs the reference model."""
import sys
sys.path.insert(0, '/verif/lib')
sys.path.insert(0, '/verif/gen')
import modelcheck
import gen_classes


def main():
    tier = sys.argv[sys.argv.index('--tier') + 1] if '--tier' in sys.argv else 'quick'
    return modelcheck.run(
        'C03', gen_classes.case, tier,
        runs=[('dbg', ['--stack-monitor']), ('rel', []), ('dbg', ['--cache-off'])],
        rule=('random hierarchies of 1-6 classes (depth <= 5), inits assigning field subsets in random order with or '
              'without super.init, overriding, super.m, self dispatch, statics, callable fields shadowing methods, '
              'shared call sites (invoke, get-then-call, field read/write, compound assignment) fed with '
              'mono/alternating/random receiver sequences, bound methods, undeclared access, arity errors; field and '
              'method results are unique tags; dbg(+stack monitor), rel, dbg with caches forced off'),
        n_quick=2000, n_thorough=80000, layouts=2,
        stat_keys=('prop_hits', 'prop_misses', 'inv_hits', 'inv_misses', 'inv_clears', 'prop_clears'),
        requires=[('inv_hits', 500, 10000), ('prop_hits', 200, 5000)])


if __name__ == '__main__':
    sys.exit(main())
