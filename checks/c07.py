#!/usr/bin/env python3
"""C07: channels deliver every value exactly once, in order, within capacity.
Offline history checker over event logs recorded at the program boundary of
generated fiber/channel networks, plus the Kahn-network received sequences
for single-reader/single-writer networks."""
import json
import sys

sys.path.insert(0, '/verif/lib')
import vlib
import chancheck

PROP = 'C07'


def main():
    tier = 'quick'
    if '--tier' in sys.argv:
        tier = sys.argv[sys.argv.index('--tier') + 1]
    got, rc = chancheck.evaluate(PROP, tier, int(__import__('os').environ.get('VERIF_SEED', '0') or 0))
    if got is None:
        return rc
    chk, res = got
    chk.run_witnesses(__import__('chanrun').BINS['dbg'])
    interleavings = set()
    known_nets = chancheck.load_known_networks()
    for r in res:
        if 'skip' in r:
            chk.count('generator_skips')
            continue
        net = r['net']
        for run in r['runs']:
            chk.evaluations += 1
            chk.count('events_observed', run['events'])
            chk.count('context_switches', run['switches'])
            chk.count('outcome ' + run['outcome'].split(':')[0])
            if run['outcome'] in ('timeout', 'harness'):
                chk.inconclusive.append('%s %s_%d' % (run['outcome'], r['stratum'], r['idx']))
                continue
            if run['switches'] >= 2 and run['events'] >= 6:
                interleavings.add(hash(run['sched']))
            files = {'main.lay': r['text'], 'stdout.txt': run['stdout'], 'stderr.txt': run['stderr']}
            info = {'stratum': r['stratum'], 'idx': r['idx'], 'cfg': run['cfg'], 'chans': net['chans']}
            o = run['outcome']
            if (o.startswith('signal') or o in ('panic', 'nostats', 'asan')) and 'fiber/mod.rs' not in run['detail']:
                # not one of the scheduler assertion panics (those belong to C08): values in flight were damaged
                chk.violation('crash while channel values were in flight: %s %s' % (o, run['detail'][:100]), files, info)
                continue
            kinds = sorted(set(p[0] for p in run['problems']))
            if r.get('seed') == chancheck.FIXED_SEED and 'sync-sender-early' in kinds:
                listed = known_nets.get(r['stratum'], {}).get(str(r['idx']))
                if listed == 'sync-sender-early':
                    f = [x for x in chk.findings['findings'] if x['id'] == 'D16']
                    chk.known.setdefault('D16', {'what': f[0]['what_fails'], 'n': 0})
                    chk.known['D16']['n'] += 1
                else:
                    chk.violation('fixed-corpus %s#%d: sync-sender-early on a network not listed in known_networks.json' % (
                        r['stratum'], r['idx']), files, info)
                continue
            if 'sync-sender-early' in kinds:
                # D16: once a synchronous sender has been resumed early the rest of the history is tainted
                chk.violation(('clean-stratum ' if r['stratum'] == 'sync2' else '') + 'sync-sender-early: ' + run['problems'][0][1], files, info)
                continue
            for rule, text in run['problems']:
                chk.violation('%s: %s' % (rule, text), files, dict(info, rule=rule))
            # determinate networks: what was received is a prefix of the Kahn result
            if net['srsw'] and run['outcome'] in ('ok', 'deadlock'):
                for c, seq in run['received'].items():
                    want = r['model']['received'].get(int(c), [])
                    if seq != want[:len(seq)]:
                        chk.violation('recvseq: c%s delivered %r, the network determines %r' % (c, seq, want[:len(seq) + 1]),
                                      files, info)
    chk.distinct = interleavings
    chk.rule = ('generated networks in 5 strata (two-party synchronous; two-party any capacity with close; star; '
                'multi-fiber SRSW; multi-fiber MRMW), each run on dbg (every 4th also rel); history rules: nothing '
                'invented/duplicated/lost/reordered, capacity never exceeded, synchronous rendezvous, close semantics, '
                'received sequences vs the Kahn-network result. distinct = distinct scheduler event sequences '
                '(context switches and wake-ups recorded by the hook) among runs with >= 2 switches')
    for r in res[:400]:
        if 'skip' not in r and r['runs'][0]['events'] > 8:
            chk.sample({'stratum': r['stratum'], 'chans': r['net']['chans'], 'fibers': r['net']['fibers'],
                        'history_head': r['runs'][0]['stdout'].split('\n')[:12]}, limit=3)
    chk.require('events observed', chk.counters.get('events_observed', 0), 5000)
    chk.require('context switches', chk.counters.get('context_switches', 0), 1000)
    return chk.finish()


if __name__ == '__main__':
    sys.exit(main())
