#!/usr/bin/env python3
"""C09: strings compare and hash by content however and whenever created."""
import sys
sys.path.insert(0, '/verif/lib')
sys.path.insert(0, '/verif/gen')
import modelcheck
import gen_strings


def main():
    tier = sys.argv[sys.argv.index('--tier') + 1] if '--tier' in sys.argv else 'quick'
    ic = ['--intern-check']
    return modelcheck.run(
        'C09', gen_strings.case, tier,
        runs=[('dbg', ic + ['--gc', 'every:1', '--sweep', 'alt', '--alloc', 'reuse']),
              ('dbg', ic + ['--gc', 'every:1', '--sweep', 'stock', '--alloc', 'quarantine']),
              ('dbg', ic + ['--gc', 'every:3', '--sweep', 'full', '--alloc', 'reuse']),
              ('rel', ['--gc', 'every:2', '--sweep', 'nursery', '--alloc', 'reuse']),
              ('dbg', ['--gc', 'never'])],
        rule=('pairs of string-producing routes (literal, concatenation, interpolation, slice, split, char-by-char '
              'rebuild, str() of numbers/bools/nil, case mapping, trim) reaching equal or different content, compared '
              'with == != <= >= <, used as map keys and in has/index, with create-drop-recreate cycles and garbage '
              'churn in between; every program under 4 collection schedules (every allocation with alternating / '
              'stock sweeps, every 3rd full, nursery-only on release) with the address-reuse or poisoning allocator '
              'and without collection; oracle: reference model output + the intern-table invariant hook inside every '
              'collection (no two marked strings with equal content, every marked string is the table entry for its '
              'content, keys point into their values, entries are held strings after a full sweep)'),
        n_quick=800, n_thorough=40000,
        stat_keys=('collections', 'intern_checks', 'intern_strings', 'h_reused', 'objs_freed'),
        requires=[('intern_checks', 20000, 500000), ('intern_strings', 1000000, 20000000)])


if __name__ == '__main__':
    sys.exit(main())
