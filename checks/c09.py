#!/usr/bin/env python3
"""C09: strings compare and hash by content however and whenever created."""
import sys
sys.path.insert(0, '/verif/lib')
sys.path.insert(0, '/verif/gen')
import modelcheck
import gen_strings


LENGTHS = [15, 16, 17, 63, 64, 65, 127, 128, 129, 255, 256, 257, 1023, 1024, 1025, 4095, 4096, 4097, 65535, 65536, 65537,
           131072, 300000]


def long_program(n):
    """the same n-character text built by four routes (doubling then slicing, char-wise from a pattern, interpolation of
    halves, concatenation in another association), compared pairwise, used as map keys and list elements; a text that
    differs in its last character must stay different. Expected output is known by construction."""
    return '''fn dbl(n) { let s = "ab"; while s.len() < n { s = s + s; } return s.slice(0, n); }
fn halves(n) { let h = (n / 2).floor(); let a = dbl(n).slice(0, h); let b = dbl(n).slice(h, n); return "${a}${b}"; }
fn assoc(n) { let q = (n / 4).floor(); let s = dbl(n); return s.slice(0, q) + (s.slice(q, 2 * q) + s.slice(2 * q, n)); }
fn odd(n) { return dbl(n - 1) + "#"; }
let n = %d;
let a = dbl(n);
let b = halves(n);
let c = assoc(n);
let d = odd(n);
print(a.len(), b.len(), c.len(), d.len());
print(a == b, b == c, a == c, a != b, a == d, a != d);
let m = {};
m[a] = 1;
m[b] = 2;
m[d] = 3;
print(m.len(), m[c], m.has(c), m.has(d), m.has(dbl(n)), m.has(dbl(n + 1)));
print([a, d].has(c), [a, d].index(b), [a, d].index(odd(n)), (a,).has(halves(n)));
let junk = [];
for i in 50.times() { junk.push("j${i}" + dbl(40)); }
print(a == dbl(n), m[halves(n)], m[odd(n)]);
''' % n


def long_strings(chk, bins, tier):
    import os
    import vlib
    work = os.path.join(vlib.WORK, 'C09', 'long')
    os.makedirs(work, exist_ok=True)
    runs = [('dbg', ['--intern-check', '--gc', 'every:50', '--sweep', 'alt']), ('rel', []), ('dbg', ['--gc', 'never'])]
    for n in LENGTHS:
        want = ['%d %d %d %d' % (n, n, n, n), 'true true true false false true', '2 2 true true true false',
                'true 0 1 true', 'true 2 3']
        p = os.path.join(work, 'len%d.lay' % n)
        open(p, 'w').write(long_program(n))
        for cfg, opts in runs:
            r = vlib.lyrun(bins[cfg], p, opts + ['--steps', '200000000'], timeout=300, cwd=work)
            chk.evaluations += 1
            chk.count('long_string_programs')
            if r.outcome in ('timeout', 'harness'):
                chk.inconclusive.append('long string program %d: %s' % (n, r.outcome))
                continue
            got = [l for l in r.out.split('\n') if l]
            viol = [v for v in (r.stats or {}).get('violations', []) if v.startswith('intern')]
            if r.outcome != 'ok' or got != want or viol:
                chk.violation('equal texts of %d characters built by different routes: %s' % (
                    n, ('monitor: ' + viol[0][:120]) if viol else 'outcome %s, printed %r, the text says %r' % (r.outcome, got, want)),
                    {'main.lay': long_program(n)}, {'length': n, 'cfg': cfg, 'opts': opts})


def main():
    tier = sys.argv[sys.argv.index('--tier') + 1] if '--tier' in sys.argv else 'quick'
    ic = ['--intern-check']
    return modelcheck.run(
        'C09', gen_strings.case, tier,
        runs=[('dbg', ic + ['--gc', 'every:1', '--sweep', 'alt', '--alloc', 'reuse']),
              ('dbg', ic + ['--gc', 'every:1', '--sweep', 'stock', '--alloc', 'quarantine']),
              ('dbg', ic + ['--gc', 'every:3', '--sweep', 'full', '--alloc', 'reuse']),
              ('rel', ['--gc', 'every:2', '--sweep', 'nursery', '--alloc', 'reuse']),
              ('dbg', ['--gc', 'never'])],
        rule=('pairs of string-producing routes (literal, concatenation, interpolation, slice, split, char-by-char '
              'rebuild, str() of numbers/bools/nil, case mapping, trim) reaching equal or different content, compared '
              'with == != <= >= <, used as map keys and in has/index, with create-drop-recreate cycles and garbage '
              'churn in between; every program under 4 collection schedules (every allocation with alternating / '
              'stock sweeps, every 3rd full, nursery-only on release) with the address-reuse or poisoning allocator '
              'and without collection; oracle: reference model output + the intern-table invariant hook inside every '
              'collection (no two marked strings with equal content, every marked string is the table entry for its '
              'content, keys point into their values, entries are held strings after a full sweep)'),
        n_quick=800, n_thorough=40000,
        stat_keys=('collections', 'intern_checks', 'intern_strings', 'h_reused', 'objs_freed'),
        requires=[('intern_checks', 20000, 500000), ('intern_strings', 1000000, 20000000)], post=long_strings)


if __name__ == '__main__':
    sys.exit(main())
