#!/usr/bin/env python3
"""C20: garbage is reclaimed and heap accounting is exact.
(A) on every program of the corpus, with the tracking allocator: every block is
    released with the layout it was obtained with; after every collection the
    byte count equals the sum of the reported sizes of the held objects and
    the threshold is twice that; every reported size equals the true block
    size; intern-table invariant; a second full collection frees nothing.
(B) steady-state loops per object kind with bounded live data: live bytes
    (collector's count and the allocator's real count) and temporary roots do
    not grow with the iteration count."""
import os
import sys

sys.path.insert(0, '/verif/lib')
sys.path.insert(0, '/verif/gen')
import vlib
import corpus
import gen_gcstress
import selfdiff

PROP = 'C20'
BINS = {}


def run_a(args):
    name, path, cwd, cfg, opts = args
    r = vlib.lyrun(BINS[cfg], path, opts + ['--steps', '20000000'], timeout=90, cwd=cwd)
    out = {'name': name, 'path': path, 'cfg': cfg, 'outcome': r.outcome, 'problems': [], 'snaps': 0, 'full': 0,
           'sizes': 0, 'frees': 0, 'opts': opts}
    if r.outcome in ('timeout', 'harness') or r.stats is None:
        out['skip'] = r.outcome
        return out
    st = r.stats
    out['sizes'] = st.get('sizes_checked', 0)
    out['frees'] = st.get('objs_freed', 0)
    if st.get('h_layout_mismatches', 0) or 'VERIF-LAYOUT' in r.err:
        line = [l for l in r.err.split('\n') if 'VERIF-LAYOUT' in l]
        out['problems'].append('layout: block released with a different layout than it was obtained with (%s)' % (
            line[0] if line else st.get('h_layout_mismatches')))
    for v in st.get('violations', []):
        if v.startswith(('size:', 'intern:', 'sweep:')):
            out['problems'].append(v)
    for s in st.get('snapshots', []):
        out['snaps'] += 1
        gc_count, full, bytes_alloc, next_gc, sum_sizes = s[0], s[1], s[2], s[3], s[4]
        out['full'] += full
        if bytes_alloc != sum_sizes:
            out['problems'].append('accounting: after %s collection %d the collector reports %d bytes, the held objects '
                                   'sum to %d' % ('full' if full else 'nursery', gc_count, bytes_alloc, sum_sizes))
            break
        if next_gc != 2 * bytes_alloc:
            out['problems'].append('threshold: after collection %d next_gc is %d, live size is %d' % (gc_count, next_gc, bytes_alloc))
            break
        if full and s[7] != 0:
            out['problems'].append('nursery not empty after a full collection')
            break
    ff = st.get('final_freed', [])
    if len(ff) == 2 and ff[1] != 0:
        out['problems'].append('idempotence: a second full collection freed %d more objects' % ff[1])
    return out


def run_b(args):
    kind, template, n, cfg = args
    d = os.path.join(vlib.WORK, PROP, 'loops')
    os.makedirs(d, exist_ok=True)
    rows = []
    for k in (n, 4 * n):
        p = os.path.join(d, '%s_%d.lay' % (kind, k))
        open(p, 'w').write(template % {'n': k})
        r = vlib.lyrun(BINS[cfg], p, ['--gc', 'every:50', '--alloc', 'track', '--final-gc', '--steps', '2000000000'],
                       timeout=600, cwd=d)
        if r.stats is None or r.outcome != 'ok':
            return {'kind': kind, 'skip': '%s %s' % (r.outcome, r.detail), 'cfg': cfg}
        rows.append((r.stats['heap_bytes'], r.stats['h_live_bytes'], r.stats['temp_roots'], r.stats['collections'],
                     r.stats['objs_freed']))
    return {'kind': kind, 'rows': rows, 'n': n, 'cfg': cfg}


def main():
    tier = sys.argv[sys.argv.index('--tier') + 1] if '--tier' in sys.argv else 'quick'
    chk = vlib.Check(PROP, tier)
    try:
        BINS['dbg'] = vlib.build('dbg')['lyrun']
        BINS['rel'] = vlib.build('rel')['lyrun']
    except vlib.HarnessError as e:
        sys.stderr.write(str(e) + '\n')
        return 2
    work = vlib.workdir(PROP)
    chk.run_witnesses(BINS['dbg'])
    n_gen = int(os.environ.get('VERIF_N', '0')) or (400 if tier == 'quick' else 8000)
    kinds = selfdiff.available_kinds()
    jobs = []
    base = ['--alloc', 'track', '--snapshots', '--size-check', '--final-gc', '--intern-check']
    scheds = [['--gc', 'every:3', '--sweep', 'stock'], ['--gc', 'every:1', '--sweep', 'alt'],
              ['--gc', 'every:7', '--sweep', 'stock']]
    progs = [('fixture:' + os.path.basename(p), p, os.path.dirname(p)) for p, e in corpus.fixture_list() if e != 'CompileError']
    gdir = os.path.join(work, 'gen')
    os.makedirs(gdir, exist_ok=True)
    for name, text in corpus.generated_sources(chk.seed, n_gen, kinds):
        p = os.path.join(gdir, name + '.lay')
        open(p, 'w').write(text)
        progs.append((name, p, gdir))
    for i, (name, p, cwd) in enumerate(progs):
        jobs.append((name, p, cwd, 'dbg', base + scheds[i % len(scheds)]))
        if i % 3 == 0:
            jobs.append((name, p, cwd, 'rel', base + scheds[(i + 1) % len(scheds)]))
    for r in vlib.pmap(run_a, jobs, chunksize=4):
        chk.evaluations += 1
        if 'skip' in r:
            if r['skip'] in ('timeout', 'harness'):
                chk.inconclusive.append('%s %s' % (r['skip'], r['path']))
            else:
                chk.count('skipped_crash_or_no_stats')
            continue
        chk.count('snapshots_checked', r['snaps'])
        chk.count('full_collections_checked', r['full'])
        chk.count('object_sizes_checked', r['sizes'])
        chk.count('objects_freed', r['frees'])
        if r['snaps'] > 0:
            chk.distinct.add(r['name'])
        for p in r['problems']:
            chk.violation(p, {'main.lay': open(r['path']).read()}, {'program': r['name'], 'cfg': r['cfg'], 'opts': r['opts']})
    # ---- (B) steady state --------------------------------------------------
    n = 300 if tier == 'quick' else 5000
    loops = gen_gcstress.loops()
    bjobs = [(k, t, n, 'dbg' if tier == 'quick' else 'rel') for k, t in sorted(loops.items())]
    for r in vlib.pmap(run_b, bjobs):
        chk.evaluations += 2
        if 'skip' in r:
            what = r['skip']
            if what.startswith(('panic', 'signal', 'nostats')) or 'VERIF-' in what:
                # the loops are hand-written valid programs that keep their data reachable; dying under a collection
                # schedule means the collector released (or corrupted) something the program could still reach
                chk.violation('loop "%s" died under the collection schedule: %s' % (r['kind'], what.strip()),
                              {'main.lay': loops[r['kind']] % {'n': n}}, {'loop': r['kind'], 'cfg': r.get('cfg')})
            else:
                chk.inconclusive.append('loop %s: %s' % (r['kind'], what))
            continue
        a, b = r['rows']
        chk.count('steady_state_loops')
        chk.count('steady_state_collections', a[3] + b[3])
        info = {'kind': r['kind'], 'n': r['n'], 'rows(heap_bytes,real_live_bytes,temp_roots,collections,freed)': r['rows']}
        src = {'main.lay': loops[r['kind']] % {'n': 4 * r['n']}}
        if b[0] - a[0] > 2048:
            chk.violation('unbounded: loop "%s" holds %d collector bytes after %d iterations and %d after %d' % (
                r['kind'], a[0], r['n'], b[0], 4 * r['n']), src, info)
        elif b[1] - a[1] > 4096 + 16 * 1024:
            chk.violation('unbounded-native: loop "%s" holds %d real bytes after %d iterations and %d after %d '
                          '(collector count flat)' % (r['kind'], a[1], r['n'], b[1], 4 * r['n']), src, info)
        if b[2] != a[2]:
            chk.violation('temp-roots: loop "%s" ends with %d temporary roots after %d iterations and %d after %d' % (
                r['kind'], a[2], r['n'], b[2], 4 * r['n']), src, info)
    # ---- (C) thorough: Miri checks every dealloc layout and every access ----
    if tier == 'thorough':
        import mirirun
        try:
            mirirun.prepare()
            d = os.path.join(work, 'miri')
            os.makedirs(d, exist_ok=True)
            mj = []
            for k, t in sorted(loops.items()):
                p = os.path.join(d, k + '.lay')
                open(p, 'w').write(t % {'n': 4})
                mj.append((p, ['--gc', 'every:3', '--sweep', 'alt', '--final-gc'], 1500))
            for r in vlib.pmap(mirirun.run, mj):
                chk.evaluations += 1
                if r['ub']:
                    chk.violation('miri: ' + r['ub'], {'main.lay': open(r['path']).read()}, {'stderr': r.get('stderr_tail', '')})
                elif r['outcome'] == 'ok':
                    chk.count('miri_programs')
                else:
                    chk.count('miri_not_judged')
        except Exception as e:
            chk.inconclusive.append('miri unavailable: %r' % (e,))
    chk.rule = ('(A) fixtures + %d generated programs (%s) under 3 collection schedules with the tracking allocator, '
                'snapshots after every collection, per-object size check against the allocator record, intern '
                'invariant and two forced full collections at exit, dbg (every 3rd also rel); (B) %d steady-state '
                'loops (one per object kind / error path) at N=%d and 4N: collector bytes, real live bytes and '
                'temporary roots must not grow. distinct = programs with at least one checked collection' % (
                    n_gen, ','.join(kinds), len(loops), n))
    chk.samples = sorted(loops)[:5]
    chk.require('snapshots checked', chk.counters.get('snapshots_checked', 0), 20000)
    chk.require('object sizes checked', chk.counters.get('object_sizes_checked', 0), 100000)
    chk.require('steady-state loops', chk.counters.get('steady_state_loops', 0), 15)
    return chk.finish()


if __name__ == '__main__':
    sys.exit(main())
