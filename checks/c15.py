#!/usr/bin/env python3
"""C15: the front end is total: any text yields a program or diagnostics."""
import hashlib
import os
import random
import sys
import zlib

sys.path.insert(0, '/verif/lib')
sys.path.insert(0, '/verif/gen')
import vlib
import corpus
import selfdiff
import gen_mutate

PROP = 'C15'
BINS = {}
WORK = [None]


def run_input(args):
    name, text, cfg = args
    d = WORK[0]
    h = hashlib.sha1((name + text[:2000]).encode('utf-8', 'replace')).hexdigest()[:16]
    p = os.path.join(d, h + '.lay')
    with open(p, 'w', encoding='utf-8', errors='replace') as fh:
        fh.write(text)
    dump = p + '.dump'
    r = vlib.lyrun(BINS[cfg], p, ['--dump', dump, '--steps', '300000'], timeout=40, cwd=d)
    compiled = False
    if os.path.exists(dump):
        try:
            compiled = '"t":"module"' in open(dump).read()
        except OSError:
            pass
        os.unlink(dump)
    out = {'name': name, 'cfg': cfg, 'outcome': r.outcome, 'compiled': compiled, 'problem': None, 'path': p,
           'detail': r.detail, 'wall': r.wall}
    if r.outcome == 'harness':
        out['problem'] = None
        out['skip'] = 'harness'
    elif r.outcome == 'timeout':
        if not compiled:
            # decide on a second, solitary attempt
            r2 = vlib.lyrun(BINS[cfg], p, ['--steps', '300000'], timeout=120, cwd=d)
            if r2.outcome == 'timeout':
                out['problem'] = 'front end did not finish within 120 s on a %d byte input' % len(text)
        else:
            out['skip'] = 'runtime timeout'
    elif vlib.is_crash(r.outcome):
        if not compiled:
            out['problem'] = 'front end crashed: %s %s' % (r.outcome, r.detail)
        else:
            out['forward'] = 'runtime crash after a successful compile: %s %s' % (r.outcome, r.detail)
    elif r.outcome == 'compile_error':
        if 'error' not in r.err.lower():
            out['problem'] = 'compile error status without a diagnostic on stderr'
        elif r.out.strip():
            out['problem'] = 'diagnostics were reported but the program printed %r' % r.out[:80]
        elif compiled:
            out['problem'] = 'diagnostics were reported after the compile hook saw a finished module'
    elif (r.outcome == 'ok' or r.outcome.startswith('error:')) and name.startswith('boundary:'):
        want = gen_mutate.EXPECT.get(name.split(':', 1)[1])
        got = [l for l in r.out.split('\n') if l]
        if want is not None and r.outcome != 'ok':
            got.append('<%s>' % r.outcome)
        if want is not None and got != want:
            out['problem'] = ('front end accepted the program but built one that does not behave as written: '
                              'prints %r, the text says %r' % (got[:4], want))
    if out['problem'] is None and out.get('skip') is None and os.path.exists(p) and not out.get('forward'):
        os.unlink(p)
    return out


def fuzz_stage(chk, seeds):
    """thorough tier: coverage-guided fuzzing of the front end (libFuzzer + ASan, debug assertions on) through
    the compile-only hook, 16 forks; every artifact is re-run through lyrun for classification."""
    import re
    import shutil
    import subprocess
    fuzzdir = os.path.join(vlib.VERIF, 'fuzz')
    lock = os.path.join(fuzzdir, 'Cargo.lock')
    if not os.path.exists(lock):
        shutil.copy(os.path.join(vlib.REPO, 'Cargo.lock'), lock)
    corp = os.path.join(WORK[0], 'fuzz_corpus')
    art = os.path.join(WORK[0], 'fuzz_artifacts')
    shutil.rmtree(art, ignore_errors=True)
    os.makedirs(corp, exist_ok=True)
    os.makedirs(art, exist_ok=True)
    for i, t in enumerate(seeds):
        if len(t) < 4096:
            open(os.path.join(corp, 'seed%04d' % i), 'w', encoding='utf-8').write(t)
    env = dict(os.environ)
    env['CARGO_NET_OFFLINE'] = 'true'
    env['CARGO_TARGET_DIR'] = os.path.join(vlib.TARGET, 'fuzz')
    env.pop('RUSTFLAGS', None)
    secs = int(os.environ.get('VERIF_FUZZ_SECONDS', '900'))
    cmd = ['cargo', '+nightly', 'fuzz', 'run', '--fuzz-dir', fuzzdir, 'frontend', corp, '--',
           '-max_total_time=%d' % secs, '-fork=16', '-timeout=10', '-max_len=4096', '-ignore_crashes=1',
           '-ignore_timeouts=1', '-ignore_ooms=1', '-artifact_prefix=' + art + '/', '-seed=%d' % (chk.seed + 1)]
    # the property bounds nesting; an instrumented build uses ~3 KB of native stack per nesting level, so a 4 KB
    # input of nothing but prefix operators exhausts the default 8 MB. The fuzzer runs with a 1 GB stack limit:
    # with inputs capped at 4096 bytes only unbounded recursion can exhaust it. Bounded nesting on the normal
    # stack is the deterministic boundary suite's job (main stage).
    import resource

    def big_stack():
        resource.setrlimit(resource.RLIMIT_STACK, (1 << 30, 1 << 30))
    try:
        p = subprocess.run(cmd, cwd=fuzzdir, env=env, capture_output=True, text=True, timeout=secs + 1800,
                           errors='replace', preexec_fn=big_stack)
    except subprocess.TimeoutExpired:
        chk.inconclusive.append('libFuzzer run did not finish')
        return
    log = p.stderr
    if 'error: could not compile' in log or 'error[' in log:
        chk.inconclusive.append('fuzz target did not build: ' + log[-300:])
        return
    stats = re.findall(r'#(\d+): cov: (\d+) ft: (\d+) corp: (\d+) exec/s: (\d+) oom/timeout/crash: (\d+)/(\d+)/(\d+)', log)
    if stats:
        last = stats[-1]
        chk.count('libfuzzer_executions', int(last[0]))
        chk.count('libfuzzer_coverage_edges', int(last[1]))
        chk.count('libfuzzer_corpus', int(last[3]))
        chk.evaluations += int(last[0])
    else:
        chk.inconclusive.append('libFuzzer printed no statistics')
    for f in sorted(os.listdir(art))[:50]:
        data = open(os.path.join(art, f), 'rb').read()
        text = data.decode('utf-8', 'ignore')
        r = run_input(('fuzz:' + f, text, 'dbg'))
        kind = f.split('-')[0]
        if r['problem']:
            chk.violation(r['problem'] + ' [libfuzzer %s]' % kind, {'input.lay': text}, {'artifact': f})
        elif kind == 'crash':
            fbin = os.path.join(vlib.TARGET, 'fuzz', 'x86_64-unknown-linux-gnu', 'release', 'frontend')
            try:
                q = subprocess.run([fbin, os.path.join(art, f)], capture_output=True, text=True, timeout=120,
                                   errors='replace', preexec_fn=big_stack)
            except subprocess.TimeoutExpired:
                chk.inconclusive.append('re-run of fuzz artifact %s timed out' % f)
                continue
            if q.returncode == 0:
                chk.count('libfuzzer_crash_artifacts_not_reproduced')
                chk.inconclusive.append('fuzz artifact %s does not reproduce on the fuzz binary or the debug build' % f)
                continue
            summ = re.findall(r'(?:SUMMARY: |panicked at )[^\n]*', q.stderr)
            chk.violation('libfuzzer+asan crash in the front end not reproduced by the debug build: %s' % (
                re.sub(r'0x[0-9a-f]+', 'ADDR', summ[0])[:160] if summ else 'exit %d' % q.returncode),
                {'input.lay': text}, {'artifact': f, 'asan': q.stderr[-3000:]})
        elif kind == 'timeout':
            chk.violation('libfuzzer: front end exceeded 10 s on a %d byte input' % len(data), {'input.lay': text}, {'artifact': f})


def main():
    tier = sys.argv[sys.argv.index('--tier') + 1] if '--tier' in sys.argv else 'quick'
    chk = vlib.Check(PROP, tier)
    n = int(os.environ.get('VERIF_N', '0')) or (30000 if tier == "quick" else 600000)
    try:
        BINS['dbg'] = vlib.build('dbg')['lyrun']
        BINS['rel'] = vlib.build('rel')['lyrun']
    except vlib.HarnessError as e:
        sys.stderr.write(str(e) + '\n')
        return 2
    WORK[0] = vlib.workdir(PROP)
    chk.run_witnesses(BINS['dbg'])
    # seeds: every fixture file + generated programs of every kind
    seeds = []
    fixroot = os.path.join(vlib.REPO, 'laythe_vm', 'fixture')
    for root, dirs, files in os.walk(fixroot):
        if 'benchmark' in root or 'criterion' in root:
            continue
        for f in sorted(files):
            if f.endswith('.lay'):
                p = os.path.join(root, f)
                if os.path.getsize(p) < 20000:
                    try:
                        seeds.append(open(p, encoding='utf-8').read())
                    except (OSError, UnicodeDecodeError):
                        pass
    for name, text in corpus.generated_sources(chk.seed, 200, selfdiff.available_kinds()):
        if len(text) < 20000:
            seeds.append(text)
    chk.count('seed_programs', len(seeds))
    rng = random.Random(chk.seed * 7919 + 13)
    jobs = []
    kinds = {}
    for i in range(n):
        seed_text = rng.choice(seeds)
        text, how = gen_mutate.mutate(seed_text, rng)
        if rng.random() < 0.15:
            text, how2 = gen_mutate.mutate(text, rng)
            how += '>' + how2
        kinds[how.split(':')[0].split('>')[0]] = kinds.get(how.split(':')[0].split('>')[0], 0) + 1
        jobs.append(('mut%d:%s' % (i, how), text, 'dbg'))
    for name, text in gen_mutate.boundary_inputs().items():
        jobs.append(('boundary:' + name, text, 'dbg'))
        jobs.append(('boundary:' + name, text, 'rel'))
    res = vlib.pmap(run_input, jobs, chunksize=16)
    distinct = set()
    for r in res:
        chk.evaluations += 1
        if r.get('skip'):
            if r['skip'] == 'harness':
                chk.count('not_utf8_or_unreadable')
            else:
                chk.count('runtime_timeouts_not_judged')
            continue
        chk.count('outcome ' + r['outcome'].split(':')[0])
        if r['outcome'] == 'compile_error':
            distinct.add(r['name'])
        if r.get('forward'):
            chk.count('runtime_crashes_forwarded_to_C16')
        if r['problem']:
            text = open(r['path'], encoding='utf-8', errors='replace').read() if os.path.exists(r['path']) else ''
            tag = ' [%s]' % r['name'] if r['name'].startswith('boundary:') else ''
            chk.violation(r['problem'] + tag, {'input.lay': text[:200000]}, {'input': r['name'], 'cfg': r['cfg'], 'bytes': len(text)})
    if tier == 'thorough':
        fuzz_stage(chk, seeds)
    chk.distinct = distinct
    chk.extra['mutation_kinds'] = kinds
    chk.rule = ('%d seeded mutants of %d seed programs (all repo fixtures + generated programs): token-level delete/'
                'duplicate/swap/replace/insert (incl. reserved words in identifier position), truncation at token '
                'boundaries, unbalanced delimiters, byte-level flips/inserts/deletes/control characters (kept valid '
                'UTF-8: the runtime refuses anything else before the front end sees it), random token soup; + %d '
                'boundary inputs (nesting depth 256 for every recursive construct, 254/255/256/300 locals, parameters, '
                'arguments, captures, 65535/65537/70000 constants, 1 MB tokens, 66000 lines, oversized jumps) on dbg and '
                'rel. Oracle: never a panic/abort/signal/timeout before the compile hook reports a finished module; a '
                'compile-error status always comes with a diagnostic and empty stdout. distinct = inputs rejected with '
                'diagnostics' % (n, len(seeds), len(gen_mutate.boundary_inputs())))
    chk.samples = [j[1][:200] for j in jobs[:3]]
    chk.require('compile errors observed', chk.counters.get('outcome compile_error', 0), n // 4)
    return chk.finish()


if __name__ == '__main__':
    sys.exit(main())
