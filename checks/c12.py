#!/usr/bin/env python3
"""C12: the peephole optimiser never changes what a function does.

Monitors the REAL optimiser (laythe_vm::verif::peephole through lypeep, and
the pre/post streams recorded by the compile-dump hook for every function the
real compiler emitted for the corpus) with an abstract stack machine:
 (1) every recorded stream: optimiser output equivalent to its input from the
     entry and from every label, and line provenance;
 (2) exhaustive enumeration of all compiler-shaped windows up to length L over
     the alphabet the rules mention, same two oracles;
 (3) long runs (255 drops, 300 identical loads)."""
import itertools
import json
import os
import random
import subprocess
import sys

sys.path.insert(0, '/verif/lib')
sys.path.insert(0, '/verif/gen')
import vlib
import absmach
import corpus

PROP = 'C12'

ALPHABET = ['Drop', 'Dup', 'Nil', 'Add',
            'GetLocal:1', 'GetLocal:2', 'SetLocal:1', 'SetLocal:2',
            'GetBox:1', 'GetBox:2', 'SetBox:1', 'SetBox:2',
            'GetCapture:1', 'GetCapture:2', 'SetCapture:1', 'SetCapture:2',
            'GetModSym:1', 'GetModSym:2', 'SetModSym:1', 'SetModSym:2',
            'GetPropByName:0', 'PropertySlot', 'GetSuper:0', 'Call:0', 'Call:1',
            'Jump:0', 'Loop:0', 'Return', 'Raise', 'Label:0', 'Label:1', 'ArgumentDelimiter',
            'JumpIfFalse:1', 'SetPropByName:0', 'GetProp:0',
            # 16-bit operands that alias a small one modulo 256 (a rule comparing truncated operands merges them)
            'GetModSym:257', 'SetModSym:257', 'GetPropByName:256', 'SetPropByName:256', 'GetSuper:256', 'Label:256',
            'Jump:256']


def bkey(ins):
    name, a, b = ins
    if name == 'Call':
        return 'Call0' if a == 0 else 'CallN'
    return name


def norm_handlers(code):
    return [(n, 0, b) if n == 'PushHandler' else (n, a, b) for n, a, b in code]


def check_window_chunk(args):
    lypeep, windows = args
    text = '\n'.join(';'.join(w) for w in windows) + '\n'
    p = subprocess.run([lypeep], input=text, capture_output=True, text=True)
    out = p.stdout.split('\n')
    bad = []
    sizes = 0
    for w, line in zip(windows, out):
        pre = [absmach.parse_peep(t) for t in w]
        if line.startswith('ERR') or line == 'PANIC' or '|' not in line:
            bad.append((w, 'optimiser failed on window: ' + line[:80], line))
            continue
        code_s, lines_s = line.split('|')
        post = [absmach.parse_peep(t) for t in code_s.split(';')] if code_s else []
        post_lines = [int(x) for x in lines_s.split(',')] if lines_s else []
        why = absmach.equivalent(pre, post)
        if why is None:
            why = absmach.line_provenance(pre, post, post_lines)
        if why is not None:
            bad.append((w, why, line))
        if post != pre:
            sizes += 1
    return len(windows), sizes, bad


def enumerate_windows(L, bigrams):
    toks = [(t, bkey(absmach.parse_peep(t))) for t in ALPHABET]
    out = []

    def rec(prefix, last_key):
        if prefix:
            out.append(tuple(prefix))
        if len(prefix) == L:
            return
        for t, k in toks:
            if last_key is not None and (last_key, k) not in bigrams:
                continue
            prefix.append(t)
            rec(prefix, k)
            prefix.pop()
    rec([], None)
    return out


def main():
    tier = 'quick'
    if '--tier' in sys.argv:
        tier = sys.argv[sys.argv.index('--tier') + 1]
    chk = vlib.Check(PROP, tier)
    L = int(os.environ.get('VERIF_L', '0')) or (4 if tier == 'quick' else 6)
    try:
        bins = vlib.build('dbg', ('lyrun', 'lypeep'))
    except vlib.HarnessError as e:
        sys.stderr.write(str(e) + '\n')
        return 2
    work = vlib.workdir(PROP)
    # ---- (1) recorded streams --------------------------------------------
    n_gen = 300 if tier == 'quick' else 3000
    funs = corpus.compile_dumps(bins['lyrun'], work, chk.seed, n_generated=n_gen)
    bigrams = set()
    changed = 0
    distinct_streams = set()
    for f in funs:
        pre = [absmach.parse_debug(x) for x in f['pre']]
        post = [absmach.parse_debug(x) for x in f['post']]
        keys = [bkey(i) for i in pre]
        bigrams.update(zip(keys, keys[1:]))
        sig = tuple(f['pre'])
        if sig in distinct_streams:
            continue
        distinct_streams.add(sig)
        chk.evaluations += 1
        pre_n, post_n = norm_handlers(pre), norm_handlers(post)
        if pre_n != post_n:
            changed += 1
            chk.distinct.add(('stream', hash(sig)))
        try:
            why = absmach.equivalent(pre_n, post_n)
            if why is None:
                why = absmach.line_provenance(pre_n, post_n, f['post_lines'], f['pre_lines'])
        except ValueError as e:
            # an instruction the abstract machine has no semantics for: no verdict on this stream
            chk.inconclusive.append('abstract machine: %s (function %s)' % (e, f['name']))
            continue
        if why is not None:
            chk.violation('recorded stream: ' + why,
                          {'stream.json': json.dumps({'name': f['name'], 'pre': f['pre'], 'post': f['post'],
                                                      'pre_lines': f['pre_lines'], 'post_lines': f['post_lines'],
                                                      'source': f.get('source')}, indent=1)},
                          {'function': f['name'], 'why': why})
    chk.count('recorded_streams_distinct', len(distinct_streams))
    chk.count('recorded_streams_changed_by_optimiser', changed)
    chk.count('bigrams_observed', len(bigrams))
    # ---- (2) windows -------------------------------------------------------
    windows = enumerate_windows(L, bigrams)
    chk.count('windows_enumerated_L%d' % L, len(windows))
    chunks = [windows[i:i + 4000] for i in range(0, len(windows), 4000)]
    res = vlib.pmap(check_window_chunk, [(bins['lypeep'], c) for c in chunks])
    rewritten = 0
    for n, sizes, bad in res:
        chk.evaluations += n
        rewritten += sizes
        for w, why, line in bad:
            chk.violation('window: ' + why, {'window.txt': ';'.join(w) + '\n' + line + '\n'},
                          {'window': list(w), 'optimised': line, 'why': why})
    chk.count('windows_rewritten_by_optimiser', rewritten)
    for i in range(rewritten):
        if i < 100000:
            chk.distinct.add(('w', i))
    # ---- (3) long runs -----------------------------------------------------
    longs = []
    for n in (2, 3, 17, 128, 254, 255, 256, 257, 300, 511, 600):
        longs.append(tuple(['Nil'] + ['Drop'] * n + ['Return']))
    for load in ('GetLocal:1', 'GetBox:1', 'GetCapture:1', 'GetModSym:1'):
        for n in (2, 3, 50, 300):
            longs.append(tuple([load] * n + ['Return']))
    n, sizes, bad = check_window_chunk((bins['lypeep'], longs))
    chk.evaluations += n
    chk.count('long_runs', n)
    for w, why, line in bad:
        chk.violation('long run: ' + why, {'window.txt': ';'.join(w) + '\n' + line + '\n'},
                      {'window': list(w)[:10], 'len': len(w), 'why': why})
    chk.rule = ('(1) every distinct pre-optimisation stream the real compiler produced for the corpus (fixtures + %d '
                'generated programs) checked against the recorded optimiser output; (2) ALL windows of length <= %d '
                'over a %d-symbol alphabet whose adjacent instruction pairs occur in some recorded compiler stream, '
                'run through the real peephole_optimize; (3) long drop/load runs. Oracle: abstract stack machine '
                '(events, final stack, variables) from the entry and from every label + line provenance. '
                'distinct_nontrivial = cases the optimiser actually rewrote' % (n_gen, L, len(ALPHABET)))
    chk.extra['exhaustive'] = True
    chk.extra['window_length'] = L
    chk.extra['alphabet'] = ALPHABET
    chk.samples = [';'.join(w) for w in windows[len(windows) // 2: len(windows) // 2 + 3]] or ['(none)']
    chk.require('recorded streams', len(distinct_streams), 200)
    chk.require('windows rewritten', rewritten, 50)
    return chk.finish()


if __name__ == '__main__':
    sys.exit(main())
