#!/usr/bin/env python3
"""C12: the peephole optimiser never changes what a function does.

Monitors the REAL optimiser (laythe_vm::verif::peephole through lypeep, and
the pre/post streams recorded by the compile-dump hook for every function the
real compiler emitted for the corpus) with an abstract stack machine:
 (1) every recorded stream: optimiser output equivalent to its input from the
     entry and from every label, and line provenance;
 (2) exhaustive enumeration of all compiler-shaped windows up to length L over
     the alphabet the rules mention, same two oracles;
 (3) long runs (255 drops, 300 identical loads)."""
import itertools
import json
import os
import random
import subprocess
import sys

sys.path.insert(0, '/verif/lib')
sys.path.insert(0, '/verif/gen')
import vlib
import absmach
import corpus

PROP = 'C12'

ALPHABET = ['Drop', 'Dup', 'Nil', 'Add',
            'GetLocal:1', 'GetLocal:2', 'SetLocal:1', 'SetLocal:2',
            'GetBox:1', 'GetBox:2', 'SetBox:1', 'SetBox:2',
            'GetCapture:1', 'GetCapture:2', 'SetCapture:1', 'SetCapture:2',
            'GetModSym:1', 'GetModSym:2', 'SetModSym:1', 'SetModSym:2',
            'GetPropByName:0', 'PropertySlot', 'GetSuper:0', 'Call:0', 'Call:1',
            'Jump:0', 'Loop:0', 'Return', 'Raise', 'Label:0', 'Label:1', 'ArgumentDelimiter',
            'JumpIfFalse:1', 'SetPropByName:0', 'GetProp:0',
            # 16-bit operands that alias a small one modulo 256 (a rule comparing truncated operands merges them)
            'GetModSym:257', 'SetModSym:257', 'GetPropByName:256', 'SetPropByName:256', 'GetSuper:256', 'Label:256',
            'Jump:256']


def bkey(ins):
    name, a, b = ins
    if name == 'Call':
        return 'Call0' if a == 0 else 'CallN'
    return name


def norm_handlers(code):
    return [(n, 0, b) if n == 'PushHandler' else (n, a, b) for n, a, b in code]


def check_window_chunk(args):
    lypeep, windows = args
    text = '\n'.join(';'.join(w) for w in windows) + '\n'
    p = subprocess.run([lypeep], input=text, capture_output=True, text=True)
    out = p.stdout.split('\n')
    bad = []
    sizes = 0
    for w, line in zip(windows, out):
        pre = [absmach.parse_peep(t) for t in w]
        labels = [i[1] for i in pre if i[0] == 'Label']
        if len(labels) != len(set(labels)):
            # the same label defined twice: not a stream any compiler produces (labels are unique per function)
            continue
        if line.startswith('ERR') or line == 'PANIC' or '|' not in line:
            bad.append((w, 'optimiser failed on window: ' + line[:80], line))
            continue
        code_s, lines_s = line.split('|')
        post = [absmach.parse_peep(t) for t in code_s.split(';')] if code_s else []
        post_lines = [int(x) for x in lines_s.split(',')] if lines_s else []
        why = absmach.equivalent(pre, post)
        if why is None:
            why = absmach.line_provenance(pre, post, post_lines)
        if why is not None:
            bad.append((w, why, line))
        if post != pre:
            sizes += 1
    return len(windows), sizes, bad


EXTENDED = {'GetModSym:257', 'SetModSym:257', 'GetPropByName:256', 'SetPropByName:256', 'GetSuper:256', 'Label:256',
            'Jump:256'}


def window_chunks(L, bigrams, alphabet, size=4000):
    """all compiler-shaped windows of length <= L over `alphabet`, streamed in chunks (never all in memory)"""
    toks = [(t, bkey(absmach.parse_peep(t))) for t in alphabet]
    chunk = []
    stack = [([], None)]
    # iterative depth-first enumeration in the same order as the recursive definition
    def rec(prefix, last_key):
        if prefix:
            yield tuple(prefix)
        if len(prefix) == L:
            return
        for t, k in toks:
            if last_key is not None and (last_key, k) not in bigrams:
                continue
            prefix.append(t)
            yield from rec(prefix, k)
            prefix.pop()
    for w in rec([], None):
        chunk.append(w)
        if len(chunk) >= size:
            yield chunk
            chunk = []
    if chunk:
        yield chunk


def count_windows(L, bigrams, alphabet):
    """number of windows window_chunks would produce (dynamic programming over the adjacency relation)"""
    keys = [bkey(absmach.parse_peep(t)) for t in alphabet]
    ends = {}
    for k in keys:
        ends[k] = ends.get(k, 0) + 1          # windows of length 1 ending in key k (several tokens share a key)
    mult = dict(ends)
    total = sum(ends.values())
    for _ in range(L - 1):
        nxt = {}
        for a, n in ends.items():
            for b, m in mult.items():
                if (a, b) in bigrams:
                    nxt[b] = nxt.get(b, 0) + n * m
        ends = nxt
        total += sum(ends.values())
    return total


def run_windows(chk, lypeep, L, bigrams, alphabet, label):
    import multiprocessing
    n_expected = count_windows(L, bigrams, alphabet)
    chk.count('windows_enumerated_%s_L%d' % (label, L), n_expected)
    rewritten = 0
    seen = 0
    mid = []
    ctx = multiprocessing.get_context('fork')
    with ctx.Pool(vlib.NCPU) as pool:
        args = ((lypeep, c) for c in window_chunks(L, bigrams, alphabet))
        for n, sizes, bad in pool.imap_unordered(check_window_chunk, args, chunksize=1):
            seen += n
            chk.evaluations += n
            rewritten += sizes
            for w, why, line in bad:
                chk.violation('window: ' + why, {'window.txt': ';'.join(w) + '\n' + line + '\n'},
                              {'window': list(w), 'optimised': line, 'why': why})
    if seen != n_expected:
        chk.inconclusive.append('window enumeration produced %d windows, the count says %d' % (seen, n_expected))
    return rewritten


def main():
    tier = 'quick'
    if '--tier' in sys.argv:
        tier = sys.argv[sys.argv.index('--tier') + 1]
    chk = vlib.Check(PROP, tier)
    L = int(os.environ.get('VERIF_L', '0')) or (4 if tier == 'quick' else 6)
    try:
        bins = vlib.build('dbg', ('lyrun', 'lypeep'))
    except vlib.HarnessError as e:
        sys.stderr.write(str(e) + '\n')
        return 2
    work = vlib.workdir(PROP)
    # ---- (1) recorded streams --------------------------------------------
    n_gen = 300 if tier == 'quick' else 3000
    funs = corpus.compile_dumps(bins['lyrun'], work, chk.seed, n_generated=n_gen)
    bigrams = set()
    changed = 0
    distinct_streams = set()
    for f in funs:
        pre = [absmach.parse_debug(x) for x in f['pre']]
        post = [absmach.parse_debug(x) for x in f['post']]
        keys = [bkey(i) for i in pre]
        bigrams.update(zip(keys, keys[1:]))
        sig = tuple(f['pre'])
        if sig in distinct_streams:
            continue
        distinct_streams.add(sig)
        chk.evaluations += 1
        pre_n, post_n = norm_handlers(pre), norm_handlers(post)
        if pre_n != post_n:
            changed += 1
            chk.distinct.add(('stream', hash(sig)))
        try:
            why = absmach.equivalent(pre_n, post_n)
            if why is None:
                why = absmach.line_provenance(pre_n, post_n, f['post_lines'], f['pre_lines'])
        except ValueError as e:
            # an instruction the abstract machine has no semantics for: no verdict on this stream
            chk.inconclusive.append('abstract machine: %s (function %s)' % (e, f['name']))
            continue
        if why is not None:
            chk.violation('recorded stream: ' + why,
                          {'stream.json': json.dumps({'name': f['name'], 'pre': f['pre'], 'post': f['post'],
                                                      'pre_lines': f['pre_lines'], 'post_lines': f['post_lines'],
                                                      'source': f.get('source')}, indent=1)},
                          {'function': f['name'], 'why': why})
    chk.count('recorded_streams_distinct', len(distinct_streams))
    chk.count('recorded_streams_changed_by_optimiser', changed)
    chk.count('bigrams_observed', len(bigrams))
    # ---- (2) windows -------------------------------------------------------
    # the full alphabet (with the aliasing 16-bit operands) up to the largest length that stays within the window
    # budget, the base alphabet one step further
    budget = int(os.environ.get('VERIF_WINDOWS', '0')) or (2_000_000 if tier == "quick" else 200_000_000)
    base = [t for t in ALPHABET if t not in EXTENDED]
    L_full = L
    while L_full > 1 and count_windows(L_full, bigrams, ALPHABET) > budget:
        L_full -= 1
    rewritten = run_windows(chk, bins['lypeep'], L_full, bigrams, ALPHABET, 'full')
    L_base = L_full
    while L_base < L and count_windows(L_base + 1, bigrams, base) <= budget:
        L_base += 1
    if L_base > L_full:
        rewritten += run_windows(chk, bins['lypeep'], L_base, bigrams, base, 'base')
    chk.extra['window_length_full_alphabet'] = L_full
    chk.extra['window_length_base_alphabet'] = max(L_base, L_full)
    chk.count('windows_rewritten_by_optimiser', rewritten)
    for i in range(min(rewritten, 100000)):
        chk.distinct.add(('w', i))
    # ---- (3) long runs -----------------------------------------------------
    longs = []
    for n in (2, 3, 17, 128, 254, 255, 256, 257, 300, 511, 600):
        longs.append(tuple(['Nil'] + ['Drop'] * n + ['Return']))
    for load in ('GetLocal:1', 'GetBox:1', 'GetCapture:1', 'GetModSym:1'):
        for n in (2, 3, 50, 300):
            longs.append(tuple([load] * n + ['Return']))
    n, sizes, bad = check_window_chunk((bins['lypeep'], longs))
    chk.evaluations += n
    chk.count('long_runs', n)
    for w, why, line in bad:
        chk.violation('long run: ' + why, {'window.txt': ';'.join(w) + '\n' + line + '\n'},
                      {'window': list(w)[:10], 'len': len(w), 'why': why})
    chk.rule = ('(1) every distinct pre-optimisation stream the real compiler produced for the corpus (fixtures + %d '
                'generated programs) checked against the recorded optimiser output; (2) ALL windows of length <= %d '
                '(full alphabet; base alphabet without the aliasing operands one length further where the window budget allows) over a %d-symbol alphabet whose adjacent instruction pairs occur in some recorded compiler stream, '
                'run through the real peephole_optimize; (3) long drop/load runs. Oracle: abstract stack machine '
                '(events, final stack, variables) from the entry and from every label + line provenance. '
                'distinct_nontrivial = cases the optimiser actually rewrote' % (n_gen, L, len(ALPHABET)))
    chk.extra['exhaustive'] = True
    chk.extra['window_length'] = L
    chk.extra['alphabet'] = ALPHABET
    chk.samples = [';'.join(w) for w in next(window_chunks(min(L, 3), bigrams, ALPHABET, size=2000))[1000:1003]] or ['(none)']
    chk.require('recorded streams', len(distinct_streams), 200)
    chk.require('windows rewritten', rewritten, 50)
    return chk.finish()


if __name__ == '__main__':
    sys.exit(main())
