#!/usr/bin/env python3
"""C06: emitted bytecode respects the stack contract.

(a) offline, all paths: lyverify over the compile dump of every function the
    real compiler emitted for the corpus (fixtures, generated programs,
    boundary programs);
(b) online, executed paths: the in-VM stack monitor (depth within the
    reservation, ip inside the chunk, handler depth == live depth, no live
    handler at return) on debug and release builds while the corpus runs."""
import json
import os
import sys

sys.path.insert(0, '/verif/lib')
sys.path.insert(0, '/verif/gen')
import vlib
import corpus
import lyverify

PROP = 'C06'


def boundary_programs():
    out = {}
    # many locals in one function, expression nesting on top
    for n in (200, 250, 254):
        body = ''.join('  let a%d = %d;\n' % (i, i) for i in range(n))
        body += '  return a0 + (a1 + (a2 + (a3 + a%d)));\n' % (n - 1)
        out['locals_%d' % n] = 'fn f() {\n' + body + '}\nprint(f());\n'
    for n in (100, 254, 255):
        params = ', '.join('p%d' % i for i in range(n))
        args = ', '.join(str(i) for i in range(n))
        out['params_%d' % n] = 'fn f(%s) { return p0 + p%d; }\nprint(f(%s));\n' % (params, n - 1, args)
    out['constants_300'] = 'let l = [' + ', '.join(str(1000 + i) for i in range(300)) + '];\nprint(l.len(), l[299]);\n'
    out['constants_fn_300'] = 'fn f() { let l = [' + ', '.join('"s%d"' % i for i in range(300)) + ']; return l[299]; }\nprint(f());\n'
    out['deep_expr'] = 'fn f(x) { return ' + '(x + ' * 120 + 'x' + ')' * 120 + '; }\nprint(f(1));\n'
    out['deep_list'] = 'print(' + '[' * 60 + '1' + ']' * 60 + ');\n'
    out['long_if'] = 'fn f(c) {\n  let x = 0;\n  if c {\n' + '    x = x + 1;\n' * 4000 + '  }\n  return x;\n}\nprint(f(true), f(false));\n'
    out['long_loop'] = 'fn f() {\n  let x = 0;\n  let i = 0;\n  while i < 2 {\n    i = i + 1;\n' + '    x = x + 1;\n' * 4000 + '  }\n  return x;\n}\nprint(f());\n'
    out['too_long_if'] = 'fn f(c) {\n  let x = 0;\n  if c {\n' + '    x = x + 1;\n' * 9000 + '  }\n  return x;\n}\nprint(f(true));\n'
    caps = ''.join('  let c%d = %d;\n' % (i, i) for i in range(120))
    out['captures_120'] = 'fn f() {\n' + caps + '  let g = || ' + ' + '.join('c%d' % i for i in range(120)) + ';\n  return g();\n}\nprint(f());\n'
    out['try_in_args'] = ('fn f(a, b, c) {\n  let x = a ? b : c;\n  let y = a && b || c;\n  try {\n    let t = [a, b, c, x, y];\n'
                          '    try { raise Error("in"); } catch e: Error { print(t.len()); }\n    raise Error("out");\n'
                          '  } catch e: Error {\n    print(a, b, c, x, y);\n  }\n  return x;\n}\nprint(f(1, 2, 3));\n')
    out['break_with_locals'] = ('fn f() {\n  let i = 0;\n  while i < 3 {\n    let a = 1; let b = 2; let c = 3; let d = 4; let e = 5; let g = 6;\n'
                                '    i += 1;\n    if i == 2 { break; }\n  }\n  try { raise Error("x"); } catch e: Error { print(i); }\n  return i;\n}\nprint(f());\n')
    out['send_then_try'] = ('fn f(ch) {\n  ch <- 1;\n  ch <- 2;\n  try { raise Error("x"); } catch e: Error {}\n  let z = 5;\n  return z;\n}\nprint(f(chan(3)));\n')
    import gen_opcover
    for name, text in gen_opcover.programs().items():
        out['opc_' + name] = text
    return out


def run_one(args):
    lyrun, path, cwd, opts = args
    r = vlib.lyrun(lyrun, path, opts + ['--steps', '5000000'], timeout=90, cwd=cwd)
    return path, r.outcome, r.detail, (r.stats or {}).get('violations', []), (r.stats or {}).get('stack_checks', 0), \
        (r.stats or {}).get('handler_pushes', 0), (r.stats or {}).get('max_depth', 0)


def main():
    tier = 'quick'
    if '--tier' in sys.argv:
        tier = sys.argv[sys.argv.index('--tier') + 1]
    chk = vlib.Check(PROP, tier)
    try:
        bins = {'dbg': vlib.build('dbg')['lyrun'], 'rel': vlib.build('rel')['lyrun']}
    except vlib.HarnessError as e:
        sys.stderr.write(str(e) + '\n')
        return 2
    work = vlib.workdir(PROP)
    n_gen = int(os.environ.get('VERIF_N', '0')) or (600 if tier == 'quick' else 12000)
    kinds = tuple(k for k in ('core', 'scope', 'classes', 'exc', 'chan') if k == 'core' or os.path.exists('/verif/gen/gen_%s.py' % k))
    # boundary programs join the generated directory
    bdir = os.path.join(work, 'boundary')
    os.makedirs(bdir, exist_ok=True)
    bpaths = []
    for name, text in boundary_programs().items():
        p = os.path.join(bdir, name + '.lay')
        open(p, 'w').write(text)
        bpaths.append(p)
    funs, mods, res = corpus.compile_dumps(bins['dbg'], work, chk.seed, n_generated=n_gen, kinds=kinds,
                                           want_modules=True)
    bres = vlib.pmap(corpus._dump_one, [(bins['dbg'], p, p + '.dump', bdir) for p in bpaths])
    res = list(res) + list(bres)
    # ---- (a) offline verifier -------------------------------------------
    n_funs = 0
    n_nodes = 0
    shapes = set()
    for path, outcome, recs in res:
        pending = []
        seen_slots = {}
        for d in recs:
            if d.get('t') == 'fun':
                pending.append(d)
            elif d.get('t') == 'module':
                ops_index = {n: i for i, n in enumerate(d['ops'])}
                key = d['id']
                slots = seen_slots.setdefault(key, set()) if d.get('repl') else set()
                for f in pending:
                    n_funs += 1
                    try:
                        viol, max_depth, nodes = lyverify.verify_fun(f, ops_index, None, slots)
                    except Exception as e:
                        chk.inconclusive.append('verifier error on %s in %s: %r' % (f['name'], path, e))
                        continue
                    n_nodes += nodes
                    for kind, slot in f.get('_slots', []):
                        lim = d['property_slots'] if kind == 'property' else d['invoke_slots']
                        if slot >= lim:
                            viol.append('%s cache slot %d out of range %d' % (kind, slot, lim))
                    sig = (tuple(f['post']), f['params'])
                    if len(f['post']) > 4:
                        shapes.add(hash(sig))
                    for v in viol:
                        chk.violation('lyverify: ' + v,
                                      {'function.json': json.dumps({k: f[k] for k in f if not k.startswith('_')}, indent=1),
                                       'source.lay': open(path).read() if os.path.exists(path) else ''},
                                      {'function': f['name'], 'source': path, 'why': v})
                pending = []
        chk.evaluations += 1
    chk.distinct = shapes
    chk.count('functions_verified', n_funs)
    chk.count('cfg_nodes_visited', n_nodes)
    # ---- (b) online monitor ---------------------------------------------
    jobs = []
    paths = [p for p, _ in corpus.fixture_list()] + \
            [os.path.join(work, 'gen', f) for f in sorted(os.listdir(os.path.join(work, 'gen'))) if f.endswith('.lay')] + bpaths
    for p in paths:
        jobs.append((bins['dbg'], p, os.path.dirname(p), ['--stack-monitor']))
        jobs.append((bins['rel'], p, os.path.dirname(p), ['--stack-monitor']))
    online = vlib.pmap(run_one, jobs, chunksize=4)
    for path, outcome, detail, viol, checks, pushes, maxd in online:
        chk.evaluations += 1
        chk.count('online_stack_checks', checks)
        chk.count('online_handler_pushes', pushes)
        if outcome in ('timeout', 'harness'):
            chk.inconclusive.append('%s %s' % (outcome, path))
            continue
        stack_viol = [v for v in viol if v.startswith('stack:') or v.startswith('handler:') or v.startswith('cache:')]
        if outcome == 'ip_outside':
            stack_viol.append('stack: instruction pointer left the chunk')
        for v in stack_viol:
            chk.violation('online monitor: ' + v, {'source.lay': open(path).read()}, {'source': path, 'why': v})
    chk.rule = ('every function of every compile of the corpus (fixtures + %d generated programs of kinds %s + %d '
                'boundary programs) verified offline over all CFG paths (depth at joins, reservation, operands, '
                'handler depth, jump ranges, encoded bytes vs own encoder); the same programs executed on dbg and rel '
                'under the in-VM stack monitor. distinct = distinct optimised instruction streams longer than 4' % (
                    n_gen, ','.join(kinds), len(bpaths)))
    chk.samples = [os.path.basename(p) for p in bpaths[:3]]
    chk.require('functions verified', n_funs, 500)
    chk.require('online stack checks', chk.counters.get('online_stack_checks', 0), 10000)
    chk.require('online handler pushes', chk.counters.get('online_handler_pushes', 0), 50)
    return chk.finish()


if __name__ == '__main__':
    sys.exit(main())
