#!/usr/bin/env python3
"""C01: expressions, operators and control flow vs the reference model, with
layout / position metamorphic variants."""
import os
import sys
import random
import hashlib

sys.path.insert(0, '/verif/lib')
sys.path.insert(0, '/verif/gen')
import vlib
import diffrun
import lyast
import gen_core

PROP = 'C01'
POSITIONS = ['module', 'fn', 'method', 'lambda', 'fn_args']
BINS = {}
WORK = None


def make_case(args):
    seed, idx = args
    rng = random.Random((seed << 20) ^ idx)
    g = gen_core.Gen(rng, max_depth=rng.choice([2, 3, 4, 5]))
    stmts = g.program(rng.randint(6, 16))
    big_pool = rng.random() < 0.12
    if big_pool:
        # more than 256 distinct constants ahead of the program: every later literal is loaded with the long
        # constant instruction and every jump of the program crosses such loads
        n_pad = rng.choice([250, 255, 256, 257, 300])
        stmts = [lyast.Let('zz__', lyast.Call(lyast.Prop(lyast.ListLit([lyast.Num(100000 + i) for i in range(n_pad)]),
                                                         'len'), []))] + stmts
    variants = []
    pos_list = ['module'] + rng.sample(POSITIONS[1:], 2)
    base = None
    mism = []
    shapes = set()
    n_eval = 0
    for vi, pos in enumerate(pos_list):
        prog = gen_core.wrap_position(stmts, pos)
        m = diffrun.model_run(prog)
        if m is None or 'refused' in m:
            return {'refused': (m or {}).get('refused', '?'), 'idx': idx}
        if base is None:
            base = m
        layouts = [None, random.Random(rng.random())] if vi == 0 else [random.Random(rng.random())]
        for li, lay in enumerate(layouts):
            if lay is None:
                text = lyast.to_source(prog)
            else:
                text = lyast.to_source(prog, lay, wild=(li == 1 or vi > 0) and rng.random() < 0.7,
                                       parens=0.15, comments=0.2, blank=0.2)
            cid = 'p%d_%d_%d' % (idx, vi, li)
            case = {'id': cid, 'files': {'main.lay': text}, 'main': 'main.lay',
                    'expected': m, 'runs': [('dbg', ['--stack-monitor']), ('rel', [])]}
            mm, results = diffrun.run_case(case, BINS, WORK)
            n_eval += len(results)
            for x in mm:
                x.update({'text': text, 'pos': pos, 'expected': {'out': m['out'][-30:], 'outcome': m['outcome']}})
                mism.append(x)
    ops = {}
    for cfg, opts, r in results:
        if r.stats:
            ops = r.stats.get('ops', {})
    shape = hashlib.sha1(lyast.to_source(stmts).encode()).hexdigest()[:16]
    return {'idx': idx, 'mism': mism, 'evals': n_eval, 'shape': shape,
            'nontrivial': base['steps'] > 30 and len(base['out']) > 0,
            'sample': lyast.to_source(stmts)[:600] if not big_pool else '(big constant pool) ' + lyast.to_source(stmts[1:])[:500],
            'big_pool': big_pool, 'out_lines': len(base['out']),
            'outcome': base['outcome'], 'ops': ops, 'unwinds': base['unwinds']}


def main():
    global BINS, WORK
    tier = 'quick'
    if '--tier' in sys.argv:
        tier = sys.argv[sys.argv.index('--tier') + 1]
    n = int(os.environ.get('VERIF_N', '0')) or (800 if tier == 'quick' else 40000)
    chk = vlib.Check(PROP, tier)
    chk.rule = ('random core-grammar programs (gen_core, depth 2-5; one in eight behind a pool of 250-300 constants so that literals use the long constant instruction); each AST printed in 3 positions '
                '(module + 2 of fn/method/lambda/fn with args) x canonical and wild layouts, every text run on '
                'dbg (+stack monitor) and rel and compared with the reference model; distinct = distinct AST text, '
                'non-trivial = model executed > 30 steps and printed at least one line')
    try:
        BINS = {'dbg': vlib.build('dbg')['lyrun'], 'rel': vlib.build('rel')['lyrun']}
    except vlib.HarnessError as e:
        sys.stderr.write(str(e) + '\n')
        return 2
    WORK = vlib.workdir(PROP)
    chk.run_witnesses(BINS['dbg'])
    res = vlib.pmap(make_case, [(chk.seed, i) for i in range(n)], chunksize=4)
    opcodes = set()
    for r in res:
        if 'refused' in r:
            chk.count('model_refused')
            chk.count('refused: ' + r['refused'][:40])
            continue
        chk.evaluations += r['evals']
        if r['nontrivial']:
            chk.distinct.add(r['shape'])
        chk.count('programs')
        if r.get('big_pool'):
            chk.count('programs_with_more_than_256_constants')
        chk.count('outcome ' + r['outcome'])
        chk.count('stdout_lines', r['out_lines'])
        chk.count('unwinds_in_model', r['unwinds'])
        opcodes.update(r['ops'].keys())
        chk.sample(r['sample'])
        for m in r['mism']:
            if m['kind'] == 'inconclusive':
                chk.inconclusive.append(m['why'])
                continue
            chk.violation(m['why'], {'main.lay': m['text']},
                          {'cfg': m['cfg'], 'opts': m['opts'], 'expected': m['expected'], 'observed': m['res'],
                           'position': m['pos']})
    chk.extra['opcodes_executed'] = sorted(opcodes)
    chk.require('programs', chk.counters.get('programs', 0), n // 2)
    return chk.finish()


if __name__ == '__main__':
    sys.exit(main())
