#!/usr/bin/env python3
"""C05: garbage collection is invisible. Self-differential: output under a
collection schedule == output with collection disabled, with memory oracles
underneath (poisoning quarantine allocator, intern-table invariant, ASan in
the thorough tier)."""
import sys
sys.path.insert(0, '/verif/lib')
sys.path.insert(0, '/verif/gen')
import selfdiff


def miri_stage(chk, bins, tier):
    """thorough tier: small programs under Miri with a dense schedule; stdout must equal the debug build's"""
    if tier != 'thorough':
        return
    import os
    import random
    import mirirun
    import vlib
    import gen_gcstress
    import gen_opcover
    try:
        mirirun.prepare()
    except Exception as e:
        chk.inconclusive.append('miri unavailable: %r' % (e,))
        return
    d = os.path.join(vlib.WORK, 'C05', 'miri')
    os.makedirs(d, exist_ok=True)
    progs = {}
    for k, t in gen_gcstress.loops().items():
        progs['loop_' + k] = t % {'n': 3}
    opc = gen_opcover.programs()
    rng = random.Random(chk.seed)
    for k in rng.sample(sorted(opc), 40):
        progs['opc_' + k] = opc[k]
    jobs = []
    for k, t in progs.items():
        p = os.path.join(d, k + '.lay')
        open(p, 'w').write(t)
        jobs.append((p, ['--gc', 'every:2', '--sweep', 'alt'], 1500))
    for r in vlib.pmap(mirirun.run, jobs):
        chk.evaluations += 1
        if r['outcome'] in ('timeout', 'unsupported') or r['outcome'].startswith('other'):
            chk.count('miri_not_judged')
            continue
        chk.count('miri_programs')
        if r['ub']:
            chk.violation('miri: ' + r['ub'], {'main.lay': open(r['path']).read()}, {'stderr': r.get('stderr_tail', '')})
            continue
        base = vlib.lyrun(bins['dbg'], r['path'], ['--gc', 'never'], cwd=d)
        if base.outcome in ('ok',) and base.out != r['stdout']:
            chk.violation('miri: stdout differs from the debug build without collection', {'main.lay': open(r['path']).read()},
                          {'miri': r['stdout'][-500:], 'dbg': base.out[-500:]})


def native_probe_sources(step):
    """the native probe table (every collection/string/iterator/number native with normal, boundary and invalid
    arguments, callbacks that print or raise): each probe starts a fresh Vm with a minimal stack, so stack growth
    and collections fall inside natives and their callbacks"""
    try:
        import gen_natives
        return [('probe%d' % i, t) for i, t in enumerate(gen_natives._table()) if i % step == 0]
    except Exception:
        return []


def small_stack_sources():
    """natives that raise, as the very first thing a program does (the stack has not grown yet) and again deeper"""
    heads = ['assertEq("a", "expected");', 'assertNe("a", "a");', 'assert(false);', '[1][5];', '{"k": 1}["z"];', '"abc"[9];',
             '(1, 2)[7];', 'Number.parse("x");', '[3, 1].sort(|a, b| "s");', '[1].iter().each(|x| [][x]);', 'nil.foo();',
             'let c = chan(1); c.close(); c <- 1;', '[1, 2].iter().reduce("a", |a, x| a + x);']
    out = []
    for i, h in enumerate(heads):
        out.append(('smallstack_top_%d' % i, h + '\nprint("unreachable");\n'))
        out.append(('smallstack_try_%d' % i, 'try { %s print("returned"); } catch e: Error { print(e.cls().name(), e.message); }\n'
                    'fn f(n) { if n > 0 { return f(n - 1); } try { %s } catch e: Error { print(n, e.cls().name(), e.message); } return 0; }\n'
                    'for d in [0, 1, 2, 3, 5, 8, 13, 21, 34, 55] { f(d); }\nprint("end");\n' % (h, h)))
    return out


def main():
    tier = sys.argv[sys.argv.index('--tier') + 1] if '--tier' in sys.argv else 'quick'
    q = ['--alloc', 'quarantine', '--intern-check']
    variants = [
        ('dbg', ['--gc', 'every:1', '--sweep', 'stock'] + q),
        ('dbg', ['--gc', 'every:1', '--sweep', 'full'] + q),
        ('dbg', ['--gc', 'every:2', '--sweep', 'alt'] + q),
        ('rel', ['--gc', 'every:3', '--sweep', 'nursery', '--alloc', 'quarantine']),
        ('dbg', ['--gc', 'bern:0.15:7', '--sweep', 'stock', '--alloc', 'reuse']),
    ]
    cfgs = ['dbg', 'rel']
    if tier == 'thorough':
        variants += [('asan', ['--gc', 'every:1', '--sweep', 'alt']), ('asan', ['--gc', 'every:5']),
                     ('nan', ['--gc', 'every:1', '--sweep', 'alt'] + q), ('dbg', ['--gc', 'every:7'] + q),
                     ('dbg', ['--gc', 'every:16', '--sweep', 'alt'] + q)]
        cfgs += ['asan', 'nan']
    return selfdiff.run(
        'C05', tier, base=('dbg', ['--gc', 'never']), variants=variants,
        rule=('every program of the corpus (the repo fixtures that run + generated programs of all generator kinds) '
              'is run with collection disabled and under each schedule: every allocation (stock / forced-full sweeps), '
              'every 2nd alternating nursery/full, every 3rd nursery-only on release, Bernoulli(0.15) with the LIFO '
              'address-reuse allocator, plus per-program single-point and 40-point schedules placed uniformly over '
              'its allocation count; oracle: identical outcome, stdout and final error line; underneath: freed blocks '
              'poisoned and quarantined (write-after-free detected at eviction, dangling reads hit poison), the '
              'intern-table invariant inside every collection. distinct = programs in which at least one collection ran'),
        n_gen_quick=450, n_gen_thorough=9000, cfgs=cfgs,
        stat_keys=('collections', 'objs_freed', 'full_sweeps', 'nursery_sweeps', 'intern_checks', 'allocs'),
        requires=[('collections', 50000, 1000000), ('objs_freed', 50000, 1000000)],
        point_sweeps=4 if tier == 'quick' else 24, point_cfg='dbg', point_extra=q, timeout=90, post=miri_stage,
        extra_sources=native_probe_sources(3 if tier == 'quick' else 1) + small_stack_sources())


if __name__ == '__main__':
    sys.exit(main())
