#!/usr/bin/env python3
"""C17: modules run once and expose exactly their exports."""
import hashlib
import os
import random
import sys
import zlib

sys.path.insert(0, '/verif/lib')
sys.path.insert(0, '/verif/gen')
import vlib
import diffrun
import lyast
import lyref
import gen_modules

PROP = 'C17'
BINS = {}
WORK = [None]


def one(args):
    seed, idx = args
    rng = random.Random((seed << 20) ^ idx ^ zlib.crc32(b'C17'))
    case = gen_modules.case(rng)
    files = {'main.lay': lyast.to_source(case['main'])}
    modules = {}
    for key, stmts in case['modules'].items():
        rel = os.path.join(*key) + '.lay'
        files[rel] = lyast.to_source(stmts)
        modules[key] = (rel, stmts)
    m = diffrun.model_run(case['main'], modules=modules)
    if m is None or 'refused' in m:
        return {'refused': (m or {}).get('refused')}
    runs = [('dbg', ['--stack-monitor']), ('rel', []), ('dbg', ['--gc', 'every:2', '--sweep', 'alt', '--alloc', 'quarantine'])]
    c = {'id': 'g%d' % idx, 'files': files, 'main': 'main.lay', 'expected': m, 'runs': runs}
    mm, results = diffrun.run_case(c, BINS, WORK[0])
    enters = sum(1 for l in m['out'] if l.startswith('enter '))
    return {'mism': mm, 'files': files, 'evals': len(results), 'tags': sorted(case['tags']), 'outcome': m['outcome'],
            'n_modules': len(modules), 'bodies_run': enters,
            'shape': hashlib.sha1(''.join(sorted(files.values())).encode()).hexdigest()[:12],
            'expected': {'out': m['out'][-30:], 'outcome': m['outcome']}}


def main():
    tier = sys.argv[sys.argv.index('--tier') + 1] if '--tier' in sys.argv else 'quick'
    chk = vlib.Check(PROP, tier)
    n = int(os.environ.get('VERIF_N', '0')) or (1000 if tier == 'quick' else 40000)
    try:
        BINS['dbg'] = vlib.build('dbg')['lyrun']
        BINS['rel'] = vlib.build('rel')['lyrun']
    except vlib.HarnessError as e:
        sys.stderr.write(str(e) + '\n')
        return 2
    WORK[0] = vlib.workdir(PROP)
    tags = {}
    for r in vlib.pmap(one, [(chk.seed, i) for i in range(n)], chunksize=4):
        if 'refused' in r:
            chk.count('model_refused')
            chk.count('refused: ' + str(r['refused'])[:50])
            continue
        chk.evaluations += r['evals']
        chk.count('module_trees')
        chk.count('module_files', r['n_modules'])
        chk.count('module_bodies_run', r['bodies_run'])
        chk.count('outcome ' + r['outcome'])
        chk.distinct.add(r['shape'])
        for t in r['tags']:
            tags[t] = tags.get(t, 0) + 1
        chk.sample({'files': {k: v[:300] for k, v in list(r['files'].items())[:3]}}, limit=2)
        for m in r['mism']:
            if m['kind'] == 'inconclusive':
                chk.inconclusive.append(m['why'])
                continue
            chk.violation(m['why'], r['files'], {'cfg': m['cfg'], 'opts': m['opts'], 'expected': r['expected'], 'observed': m['res']})
    chk.extra['feature_tags'] = tags
    chk.rule = ('random acyclic module graphs of 2-8 files with package directories (dir.lay + dir/mod.lay), every module '
                'printing enter/exit markers (exactly-once and ordering become a history check over stdout), importing '
                'earlier modules through whole/renamed/selected-symbol forms, exporting let/fn/class, functions over '
                'private counters; main imports in random order and multiplicity; optional final import of a missing '
                'module, a non-exported symbol or access to a private name (expected ImportError / property error); '
                'compared with the reference module model (snapshot instances) on dbg, rel and dbg under a collection '
                'schedule')
    chk.require('module trees', chk.counters.get('module_trees', 0), n // 2)
    chk.require('module bodies run', chk.counters.get('module_bodies_run', 0), n)
    return chk.finish()


if __name__ == '__main__':
    sys.exit(main())
