#!/usr/bin/env python3
"""C17: modules run once and expose exactly their exports."""
import hashlib
import os
import random
import sys
import zlib

sys.path.insert(0, '/verif/lib')
sys.path.insert(0, '/verif/gen')
import vlib
import diffrun
import lyast
import lyref
import gen_modules
import gen_modfibers

PROP = 'C17'
BINS = {}
WORK = [None]


def one(args):
    seed, idx = args
    rng = random.Random((seed << 20) ^ idx ^ zlib.crc32(b'C17'))
    case = gen_modules.case(rng)
    files = {'main.lay': lyast.to_source(case['main'])}
    modules = {}
    for key, stmts in case['modules'].items():
        rel = os.path.join(*key) + '.lay'
        files[rel] = lyast.to_source(stmts)
        modules[key] = (rel, stmts)
    m = diffrun.model_run(case['main'], modules=modules)
    if m is None or 'refused' in m:
        return {'refused': (m or {}).get('refused')}
    runs = [('dbg', ['--stack-monitor']), ('rel', []), ('dbg', ['--gc', 'every:2', '--sweep', 'alt', '--alloc', 'quarantine'])]
    c = {'id': 'g%d' % idx, 'files': files, 'main': 'main.lay', 'expected': m, 'runs': runs}
    mm, results = diffrun.run_case(c, BINS, WORK[0])
    enters = sum(1 for l in m['out'] if l.startswith('enter '))
    return {'mism': mm, 'files': files, 'evals': len(results), 'tags': sorted(case['tags']), 'outcome': m['outcome'],
            'n_modules': len(modules), 'bodies_run': enters,
            'shape': hashlib.sha1(''.join(sorted(files.values())).encode()).hexdigest()[:12],
            'expected': {'out': m['out'][-30:], 'outcome': m['outcome']}}


KNOWN_CASES = '/verif/known_import_fiber_cases.json'


def fiber_case(args):
    i, label, files, body_kind = args
    whys = []
    for cfg in ('dbg', 'rel'):
        d = os.path.join(WORK[0], 'mf%d_%s' % (i, cfg))
        os.makedirs(d, exist_ok=True)
        for k, v in files.items():
            open(os.path.join(d, k), 'w').write(v)
        r = vlib.lyrun(BINS[cfg], os.path.join(d, 'main.lay'), ['--steps', '2000000'], timeout=30, cwd=d)
        if r.outcome in ('timeout', 'harness'):
            return label, None, files
        whys.append(gen_modfibers.judge(label, body_kind, r.outcome, r.out))
    # the worse of the two builds, as one stable word sequence
    why = whys[0] or whys[1]
    return label, why, files


def fiber_imports(chk):
    """imports while other fibers exist: an enumerated, seed-independent family; the cases on which the tree shows
    D45 are listed one by one (with how they fail) in known_import_fiber_cases.json"""
    import json
    try:
        known = json.load(open(KNOWN_CASES))['failing']
    except (OSError, ValueError, KeyError):
        known = {}
    jobs = [(i, label, files, bk) for i, (label, files, bk) in enumerate(gen_modfibers.cases())]
    for label, why, files in vlib.pmap(fiber_case, jobs, chunksize=2):
        if why is None:
            chk.inconclusive.append('fiber/import case did not finish: ' + label)
            continue
        chk.evaluations += 2
        chk.count('fiber_import_cases')
        if not why:
            chk.count('fiber_import_cases_history_ok')
            continue
        if known.get(label) == why:
            chk.count('fiber_import_cases_known_failures')
            fid = 'D5' if 'panic' in why else 'D45'      # the scheduler assertion is C08's finding, met here too
            f = [x for x in chk.findings['findings'] if x['id'] == fid]
            chk.known.setdefault(fid, {'what': f[0]['what_fails'] if f else 'import with other fibers', 'n': 0})
            chk.known[fid]['n'] += 1
        else:
            chk.violation('import with fibers [%s] (%s): %s' % (
                label, 'listed as "%s"' % known[label] if label in known else 'not listed in known_import_fiber_cases.json',
                why), files, {'label': label})


def named_case(args):
    i, label, files, want = args
    bad = ''
    for cfg in ('dbg', 'rel'):
        d = os.path.join(WORK[0], 'nm%d_%s' % (i, cfg))
        for k, v in files.items():
            os.makedirs(os.path.dirname(os.path.join(d, k)), exist_ok=True)
            open(os.path.join(d, k), 'w').write(v)
        r = vlib.lyrun(BINS[cfg], os.path.join(d, 'main.lay'), ['--steps', '2000000'], timeout=30, cwd=d)
        if r.outcome in ('timeout', 'harness'):
            return label, None, files
        got = [l for l in r.out.split('\n') if l]
        if want and want[-1].startswith('<outcome '):
            got.append('<outcome %s>' % r.outcome)
            if got != want:
                bad = bad or '%s: stdout and outcome %r, expected %r' % (cfg, got, want)
        elif r.outcome != 'ok':
            bad = bad or '%s: outcome %s %s' % (cfg, r.outcome, r.detail)
        elif got != want:
            bad = bad or '%s: stdout %r, expected %r' % (cfg, got, want)
    return label, bad, files


def named_modules(chk):
    jobs = [(i, label, files, want) for i, (label, files, want) in enumerate(gen_modfibers.named_cases())]
    for label, bad, files in vlib.pmap(named_case, jobs, chunksize=1):
        if bad is None:
            chk.inconclusive.append('named-module case did not finish: ' + label)
            continue
        chk.evaluations += 2
        chk.count('named_module_cases')
        if bad:
            chk.violation('module names [%s]: %s' % (label, bad), files, {'label': label})


def main():
    if '--make-known' in sys.argv:
        import json
        BINS['dbg'] = vlib.build('dbg')['lyrun']
        BINS['rel'] = vlib.build('rel')['lyrun']
        WORK[0] = vlib.workdir('known_import_fiber')
        jobs = [(i, label, files, bk) for i, (label, files, bk) in enumerate(gen_modfibers.cases())]
        failing = {label: why for label, why, files in vlib.pmap(fiber_case, jobs, chunksize=2) if why}
        json.dump({'failing': failing}, open(KNOWN_CASES, 'w'), indent=0, sort_keys=True)
        print(len(failing), 'of', len(jobs), 'fiber/import cases show D45')
        return 0
    tier = sys.argv[sys.argv.index('--tier') + 1] if '--tier' in sys.argv else 'quick'
    chk = vlib.Check(PROP, tier)
    n = int(os.environ.get('VERIF_N', '0')) or (1000 if tier == 'quick' else 40000)
    try:
        BINS['dbg'] = vlib.build('dbg')['lyrun']
        BINS['rel'] = vlib.build('rel')['lyrun']
    except vlib.HarnessError as e:
        sys.stderr.write(str(e) + '\n')
        return 2
    WORK[0] = vlib.workdir(PROP)
    chk.run_witnesses(BINS['dbg'])
    fiber_imports(chk)
    named_modules(chk)
    tags = {}
    for r in vlib.pmap(one, [(chk.seed, i) for i in range(n)], chunksize=4):
        if 'refused' in r:
            chk.count('model_refused')
            chk.count('refused: ' + str(r['refused'])[:50])
            continue
        chk.evaluations += r['evals']
        chk.count('module_trees')
        chk.count('module_files', r['n_modules'])
        chk.count('module_bodies_run', r['bodies_run'])
        chk.count('outcome ' + r['outcome'])
        chk.distinct.add(r['shape'])
        for t in r['tags']:
            tags[t] = tags.get(t, 0) + 1
        chk.sample({'files': {k: v[:300] for k, v in list(r['files'].items())[:3]}}, limit=2)
        for m in r['mism']:
            if m['kind'] == 'inconclusive':
                chk.inconclusive.append(m['why'])
                continue
            chk.violation(m['why'], r['files'], {'cfg': m['cfg'], 'opts': m['opts'], 'expected': r['expected'], 'observed': m['res']})
    chk.extra['feature_tags'] = tags
    chk.rule = ('random acyclic module graphs of 2-8 files with package directories (dir.lay + dir/mod.lay), every module '
                'printing enter/exit markers (exactly-once and ordering become a history check over stdout), importing '
                'earlier modules through whole/renamed/selected-symbol forms, exporting let/fn/class, functions over '
                'private counters; main imports in random order and multiplicity; optional final import of a missing '
                'module, a non-exported symbol or access to a private name (expected ImportError / property error); '
                'compared with the reference module model (snapshot instances) on dbg, rel and dbg under a collection '
                'schedule')
    chk.require('module trees', chk.counters.get('module_trees', 0), n // 2)
    chk.require('module bodies run', chk.counters.get('module_bodies_run', 0), n)
    return chk.finish()


if __name__ == '__main__':
    sys.exit(main())
