#!/bin/bash
# Run the repository's pinned suite with the verif guard OFF and compare with
# the 592 stable passes recorded in /root/.vp/BASELINE.json.
cd /repo || exit 2
export CARGO_NET_OFFLINE=true
out=$(cargo nextest run --workspace --no-fail-fast --offline --test-threads 8 2>&1)
echo "$out" | grep -E "Summary|FAIL \[" | sort | uniq
python3 - "$out" <<'PY'
import json,re,sys
out=sys.argv[1]
base=json.load(open('/root/.vp/BASELINE.json'))
passed=set()
for m in re.finditer(r'PASS \[[^\]]*\]\s+(?:\(\s*\d+/\d+\)\s+)?(\S+)\s+(\S+)',out):
    passed.add(m.group(1).replace('::','::')+'::'+m.group(2))
norm=lambda s:s.replace(' ','::')
missing=[t for t in base['stable_pass'] if t not in passed]
print('stable passes expected %d, missing %d'%(len(base['stable_pass']),len(missing)))
for t in missing[:20]: print('  MISSING',t)
sys.exit(1 if missing else 0)
PY
