#!/bin/bash
# Build the harness from files on disk only (offline). Other configurations
# are built on first use by the check that needs them.
set -e
cd /verif/harness
[ -f Cargo.lock ] || cp /repo/Cargo.lock Cargo.lock
export CARGO_NET_OFFLINE=true
CARGO_TARGET_DIR=/verif/target/dbg cargo build --offline --bin lyrun --bin lypeep 2>&1 | tail -2
CARGO_TARGET_DIR=/verif/target/rel cargo build --offline --release --bin lyrun 2>&1 | tail -2
CARGO_TARGET_DIR=/verif/target/nan cargo build --offline --bin lyrun --features nan_boxing 2>&1 | tail -2
echo setup ok
