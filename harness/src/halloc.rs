//! Harness allocator: a wrapper over the system allocator that
//!  * records (size, align) of every live block and reports a dealloc made
//!    with a different layout (VERIF-LAYOUT),
//!  * keeps exact live byte / block counts,
//!  * mode QUARANTINE: poisons freed blocks with 0xDD, parks them in a FIFO and
//!    checks the poison is intact when a block finally leaves the FIFO
//!    (write-after-free detector); dangling reads see poison,
//!  * mode REUSE: per-size LIFO free lists so a freed block is handed to the
//!    very next request of the same size (maximal address reuse).
//!
//! The VM is single threaded; a spin flag guards the tables anyway.

use std::alloc::{GlobalAlloc, Layout, System};
use std::sync::atomic::{AtomicBool, AtomicU64, AtomicU8, AtomicUsize, Ordering::*};

pub const MODE_PLAIN: u8 = 0;
pub const MODE_TRACK: u8 = 1;
pub const MODE_QUARANTINE: u8 = 2;
pub const MODE_REUSE: u8 = 3;

pub static MODE: AtomicU8 = AtomicU8::new(MODE_PLAIN);
pub static LIVE_BYTES: AtomicUsize = AtomicUsize::new(0);
pub static LIVE_BLOCKS: AtomicUsize = AtomicUsize::new(0);
pub static PEAK_BYTES: AtomicUsize = AtomicUsize::new(0);
pub static TOTAL_ALLOCS: AtomicU64 = AtomicU64::new(0);
pub static LAYOUT_MISMATCHES: AtomicU64 = AtomicU64::new(0);
pub static POISON_DAMAGE: AtomicU64 = AtomicU64::new(0);
pub static REUSED: AtomicU64 = AtomicU64::new(0);
pub static UNKNOWN_FREES: AtomicU64 = AtomicU64::new(0);
pub static TABLE_FULL: AtomicBool = AtomicBool::new(false);

static LOCK: AtomicBool = AtomicBool::new(false);

const TABLE_BITS: usize = 21;
const TABLE_CAP: usize = 1 << TABLE_BITS;
const EMPTY: usize = 0;
const TOMB: usize = 1;

#[derive(Clone, Copy)]
#[repr(C)]
struct Entry {
  ptr: usize,
  size: u32,
  align: u32,
}

static mut TABLE: *mut Entry = std::ptr::null_mut();
static mut TABLE_USED: usize = 0;

const QUARANTINE_SLOTS: usize = 1 << 16;
const QUARANTINE_BYTES: usize = 256 << 20;
static mut QUEUE: *mut Entry = std::ptr::null_mut();
static mut Q_HEAD: usize = 0;
static mut Q_LEN: usize = 0;
static mut Q_BYTES: usize = 0;

const REUSE_MAX: usize = 4096;
static mut FREE_LISTS: *mut usize = std::ptr::null_mut();

pub struct Harness;

fn lock() {
  while LOCK.compare_exchange_weak(false, true, Acquire, Relaxed).is_err() {
    std::hint::spin_loop();
  }
}

fn unlock() {
  LOCK.store(false, Release);
}

unsafe fn init() {
  if TABLE.is_null() {
    TABLE = System.alloc_zeroed(Layout::array::<Entry>(TABLE_CAP).unwrap()) as *mut Entry;
    QUEUE = System.alloc_zeroed(Layout::array::<Entry>(QUARANTINE_SLOTS).unwrap()) as *mut Entry;
    FREE_LISTS = System.alloc_zeroed(Layout::array::<usize>(REUSE_MAX + 1).unwrap()) as *mut usize;
  }
}

fn hash(ptr: usize) -> usize {
  ((ptr >> 3).wrapping_mul(0x9E37_79B9_7F4A_7C15)) >> (64 - TABLE_BITS)
}

unsafe fn table_insert(ptr: usize, size: usize, align: usize) {
  if TABLE_USED * 4 > TABLE_CAP * 3 {
    TABLE_FULL.store(true, Relaxed);
    return;
  }
  let mut i = hash(ptr);
  loop {
    let e = &mut *TABLE.add(i);
    if e.ptr == EMPTY || e.ptr == TOMB || e.ptr == ptr {
      if e.ptr == EMPTY {
        TABLE_USED += 1;
      }
      *e = Entry {
        ptr,
        size: size as u32,
        align: align as u32,
      };
      return;
    }
    i = (i + 1) & (TABLE_CAP - 1);
  }
}

unsafe fn table_remove(ptr: usize) -> Option<(usize, usize)> {
  let mut i = hash(ptr);
  loop {
    let e = &mut *TABLE.add(i);
    if e.ptr == EMPTY {
      return None;
    }
    if e.ptr == ptr {
      let r = (e.size as usize, e.align as usize);
      e.ptr = TOMB;
      return Some(r);
    }
    i = (i + 1) & (TABLE_CAP - 1);
  }
}

/// The recorded (size, align) of a live block
pub fn lookup(ptr: usize) -> Option<(usize, usize)> {
  lock();
  let mut result = None;
  unsafe {
    if !TABLE.is_null() {
      let mut i = hash(ptr);
      loop {
        let e = &*TABLE.add(i);
        if e.ptr == EMPTY {
          break;
        }
        if e.ptr == ptr {
          result = Some((e.size as usize, e.align as usize));
          break;
        }
        i = (i + 1) & (TABLE_CAP - 1);
      }
    }
  }
  unlock();
  result
}

fn write_num(buf: &mut [u8], pos: &mut usize, mut n: usize) {
  let mut tmp = [0u8; 20];
  let mut k = 0;
  if n == 0 {
    tmp[0] = b'0';
    k = 1;
  }
  while n > 0 {
    tmp[k] = b'0' + (n % 10) as u8;
    n /= 10;
    k += 1;
  }
  while k > 0 {
    k -= 1;
    buf[*pos] = tmp[k];
    *pos += 1;
  }
}

fn write_str(buf: &mut [u8], pos: &mut usize, s: &str) {
  for b in s.bytes() {
    buf[*pos] = b;
    *pos += 1;
  }
}

extern "C" {
  fn write(fd: i32, buf: *const u8, count: usize) -> isize;
}

fn report(kind: &str, a: usize, b: usize, c: usize, d: usize) {
  let mut buf = [0u8; 200];
  let mut pos = 0;
  write_str(&mut buf, &mut pos, kind);
  write_str(&mut buf, &mut pos, " ");
  write_num(&mut buf, &mut pos, a);
  write_str(&mut buf, &mut pos, " ");
  write_num(&mut buf, &mut pos, b);
  write_str(&mut buf, &mut pos, " ");
  write_num(&mut buf, &mut pos, c);
  write_str(&mut buf, &mut pos, " ");
  write_num(&mut buf, &mut pos, d);
  write_str(&mut buf, &mut pos, "\n");
  unsafe {
    write(2, buf.as_ptr(), pos);
  }
}

unsafe fn quarantine_evict_one() {
  let e = *QUEUE.add(Q_HEAD);
  Q_HEAD = (Q_HEAD + 1) % QUARANTINE_SLOTS;
  Q_LEN -= 1;
  Q_BYTES -= e.size as usize;
  let p = e.ptr as *mut u8;
  let mut damaged = false;
  for i in 0..e.size as usize {
    if *p.add(i) != 0xDD {
      damaged = true;
      break;
    }
  }
  if damaged {
    if POISON_DAMAGE.fetch_add(1, Relaxed) < 5 {
      report("VERIF-WRITE-AFTER-FREE size", e.size as usize, 0, 0, 0);
    }
  }
  System.dealloc(p, Layout::from_size_align_unchecked(e.size as usize, e.align as usize));
}

/// Release everything parked in the quarantine, checking poison on the way
pub fn drain_quarantine() {
  lock();
  unsafe {
    if !QUEUE.is_null() {
      while Q_LEN > 0 {
        quarantine_evict_one();
      }
    }
  }
  unlock();
}

unsafe impl GlobalAlloc for Harness {
  unsafe fn alloc(&self, layout: Layout) -> *mut u8 {
    let mode = MODE.load(Relaxed);
    if mode == MODE_PLAIN {
      return System.alloc(layout);
    }

    lock();
    init();
    let mut ptr: *mut u8 = std::ptr::null_mut();
    if mode == MODE_REUSE && layout.size() >= 8 && layout.size() <= REUSE_MAX && layout.align() <= 8 {
      let head = FREE_LISTS.add(layout.size());
      if *head != 0 {
        ptr = *head as *mut u8;
        *head = *(ptr as *mut usize);
        REUSED.fetch_add(1, Relaxed);
      }
    }
    if ptr.is_null() {
      ptr = System.alloc(layout);
    }
    if !ptr.is_null() {
      table_insert(ptr as usize, layout.size(), layout.align());
      TOTAL_ALLOCS.fetch_add(1, Relaxed);
      LIVE_BLOCKS.fetch_add(1, Relaxed);
      let live = LIVE_BYTES.fetch_add(layout.size(), Relaxed) + layout.size();
      PEAK_BYTES.fetch_max(live, Relaxed);
    }
    unlock();
    ptr
  }

  unsafe fn dealloc(&self, ptr: *mut u8, layout: Layout) {
    let mode = MODE.load(Relaxed);
    if mode == MODE_PLAIN && TABLE.is_null() {
      return System.dealloc(ptr, layout);
    }

    lock();
    init();
    let (size, align) = match table_remove(ptr as usize) {
      Some((size, align)) => {
        if size != layout.size() || align != layout.align() {
          if LAYOUT_MISMATCHES.fetch_add(1, Relaxed) < 5 {
            report("VERIF-LAYOUT alloc/dealloc", size, align, layout.size(), layout.align());
          }
        }
        LIVE_BLOCKS.fetch_sub(1, Relaxed);
        LIVE_BYTES.fetch_sub(size, Relaxed);
        (size, align)
      },
      None => {
        // allocated before tracking started (or table overflow)
        UNKNOWN_FREES.fetch_add(1, Relaxed);
        unlock();
        return System.dealloc(ptr, layout);
      },
    };

    if mode == MODE_QUARANTINE && size > 0 {
      std::ptr::write_bytes(ptr, 0xDD, size);
      while Q_LEN >= QUARANTINE_SLOTS || (Q_LEN > 0 && Q_BYTES + size > QUARANTINE_BYTES) {
        quarantine_evict_one();
      }
      let tail = (Q_HEAD + Q_LEN) % QUARANTINE_SLOTS;
      *QUEUE.add(tail) = Entry {
        ptr: ptr as usize,
        size: size as u32,
        align: align as u32,
      };
      Q_LEN += 1;
      Q_BYTES += size;
    } else if mode == MODE_REUSE && size >= 8 && size <= REUSE_MAX && align <= 8 {
      let head = FREE_LISTS.add(size);
      *(ptr as *mut usize) = *head;
      *head = ptr as usize;
    } else {
      System.dealloc(ptr, Layout::from_size_align_unchecked(size, align));
    }
    unlock();
  }
}
