//! lypeep: feed symbolic instruction windows through the REAL peephole
//! optimiser (laythe_vm::verif::peephole) and print what it returns.
//!
//! stdin : one window per line, instructions separated by ';', each
//!         `Name` | `Name:a` | `Name:a:b`. The i-th instruction is given line
//!         number i (so the returned line table shows provenance).
//! stdout: one line per window: `<instructions>|<lines>` in the same syntax
//!         (lines comma separated), or `ERR <why>` for an unparsable window,
//!         or `PANIC` if the optimiser panicked.

use laythe_vm::verif::{peephole, CaptureIndex, Label, SymbolicByteCode as S};
use std::io::{BufRead, Write};

fn parse(tok: &str) -> Result<S, String> {
  let parts: Vec<&str> = tok.split(':').collect();
  let a = || -> Result<u32, String> {
    parts
      .get(1)
      .ok_or_else(|| format!("missing operand in {}", tok))?
      .parse::<u32>()
      .map_err(|e| e.to_string())
  };
  let b = || -> Result<u32, String> {
    parts
      .get(2)
      .ok_or_else(|| format!("missing operand 2 in {}", tok))?
      .parse::<u32>()
      .map_err(|e| e.to_string())
  };
  Ok(match parts[0] {
    "Return" => S::Return,
    "Negate" => S::Negate,
    "Add" => S::Add,
    "Subtract" => S::Subtract,
    "Multiply" => S::Multiply,
    "Divide" => S::Divide,
    "Not" => S::Not,
    "And" => S::And(Label::new(a()?)),
    "Or" => S::Or(Label::new(a()?)),
    "Constant" => S::Constant(a()? as u8),
    "ConstantLong" => S::ConstantLong(a()? as u16),
    "Nil" => S::Nil,
    "True" => S::True,
    "False" => S::False,
    "List" => S::List(a()? as u16),
    "Tuple" => S::Tuple(a()? as u16),
    "Map" => S::Map(a()? as u16),
    "Launch" => S::Launch(a()? as u8),
    "Channel" => S::Channel,
    "BufferedChannel" => S::BufferedChannel,
    "Receive" => S::Receive,
    "Send" => S::Send,
    "Interpolate" => S::Interpolate(a()? as u16),
    "IterNext" => S::IterNext(a()? as u16),
    "IterCurrent" => S::IterCurrent(a()? as u16),
    "Drop" => S::Drop,
    "DropN" => S::DropN(a()? as u8),
    "Dup" => S::Dup,
    "Import" => S::Import(a()? as u16),
    "ImportSym" => S::ImportSym((a()? as u16, b()? as u16)),
    "Export" => S::Export(a()? as u16),
    "LoadGlobal" => S::LoadGlobal(a()? as u16),
    "DeclareModSym" => S::DeclareModSym((a()? as u16, b()? as u16)),
    "GetModSym" => S::GetModSym(a()? as u16),
    "SetModSym" => S::SetModSym(a()? as u16),
    "Box" => S::Box(a()? as u8),
    "EmptyBox" => S::EmptyBox,
    "FillBox" => S::FillBox,
    "GetBox" => S::GetBox(a()? as u8),
    "SetBox" => S::SetBox(a()? as u8),
    "GetLocal" => S::GetLocal(a()? as u8),
    "SetLocal" => S::SetLocal(a()? as u8),
    "GetCapture" => S::GetCapture(a()? as u8),
    "SetCapture" => S::SetCapture(a()? as u8),
    "GetPropByName" => S::GetPropByName(a()? as u16),
    "SetPropByName" => S::SetPropByName(a()? as u16),
    "GetProp" => S::GetProp(a()? as u16),
    "SetProp" => S::SetProp(a()? as u16),
    "JumpIfFalse" => S::JumpIfFalse(Label::new(a()?)),
    "Jump" => S::Jump(Label::new(a()?)),
    "Loop" => S::Loop(Label::new(a()?)),
    "PushHandler" => S::PushHandler((a()? as u16, Label::new(b()?))),
    "CheckHandler" => S::CheckHandler(Label::new(a()?)),
    "GetError" => S::GetError,
    "FinishUnwind" => S::FinishUnwind,
    "ContinueUnwind" => S::ContinueUnwind,
    "PopHandler" => S::PopHandler,
    "Raise" => S::Raise,
    "Label" => S::Label(Label::new(a()?)),
    "ArgumentDelimiter" => S::ArgumentDelimiter,
    "Call" => S::Call(a()? as u8),
    "Invoke" => S::Invoke((a()? as u16, b()? as u8)),
    "SuperInvoke" => S::SuperInvoke((a()? as u16, b()? as u8)),
    "Closure" => S::Closure(a()? as u16),
    "Method" => S::Method(a()? as u16),
    "Field" => S::Field(a()? as u16),
    "StaticMethod" => S::StaticMethod(a()? as u16),
    "Class" => S::Class(a()? as u16),
    "Inherit" => S::Inherit,
    "GetSuper" => S::GetSuper(a()? as u16),
    "CaptureLocal" => S::CaptureIndex(CaptureIndex::Local(a()? as u8)),
    "CaptureEnclosing" => S::CaptureIndex(CaptureIndex::Enclosing(a()? as u8)),
    "InvokeSlot" => S::InvokeSlot,
    "PropertySlot" => S::PropertySlot,
    "Equal" => S::Equal,
    "NotEqual" => S::NotEqual,
    "Greater" => S::Greater,
    "GreaterEqual" => S::GreaterEqual,
    "Less" => S::Less,
    "LessEqual" => S::LessEqual,
    other => return Err(format!("unknown instruction {}", other)),
  })
}

fn show(i: &S) -> String {
  match i {
    S::And(l) => format!("And:{}", l.val()),
    S::Or(l) => format!("Or:{}", l.val()),
    S::Constant(a) => format!("Constant:{}", a),
    S::ConstantLong(a) => format!("ConstantLong:{}", a),
    S::List(a) => format!("List:{}", a),
    S::Tuple(a) => format!("Tuple:{}", a),
    S::Map(a) => format!("Map:{}", a),
    S::Launch(a) => format!("Launch:{}", a),
    S::Interpolate(a) => format!("Interpolate:{}", a),
    S::IterNext(a) => format!("IterNext:{}", a),
    S::IterCurrent(a) => format!("IterCurrent:{}", a),
    S::DropN(a) => format!("DropN:{}", a),
    S::Import(a) => format!("Import:{}", a),
    S::ImportSym((a, b)) => format!("ImportSym:{}:{}", a, b),
    S::Export(a) => format!("Export:{}", a),
    S::LoadGlobal(a) => format!("LoadGlobal:{}", a),
    S::DeclareModSym((a, b)) => format!("DeclareModSym:{}:{}", a, b),
    S::GetModSym(a) => format!("GetModSym:{}", a),
    S::SetModSym(a) => format!("SetModSym:{}", a),
    S::Box(a) => format!("Box:{}", a),
    S::GetBox(a) => format!("GetBox:{}", a),
    S::SetBox(a) => format!("SetBox:{}", a),
    S::GetLocal(a) => format!("GetLocal:{}", a),
    S::SetLocal(a) => format!("SetLocal:{}", a),
    S::GetCapture(a) => format!("GetCapture:{}", a),
    S::SetCapture(a) => format!("SetCapture:{}", a),
    S::GetPropByName(a) => format!("GetPropByName:{}", a),
    S::SetPropByName(a) => format!("SetPropByName:{}", a),
    S::GetProp(a) => format!("GetProp:{}", a),
    S::SetProp(a) => format!("SetProp:{}", a),
    S::JumpIfFalse(l) => format!("JumpIfFalse:{}", l.val()),
    S::Jump(l) => format!("Jump:{}", l.val()),
    S::Loop(l) => format!("Loop:{}", l.val()),
    S::PushHandler((a, l)) => format!("PushHandler:{}:{}", a, l.val()),
    S::CheckHandler(l) => format!("CheckHandler:{}", l.val()),
    S::Label(l) => format!("Label:{}", l.val()),
    S::Call(a) => format!("Call:{}", a),
    S::Invoke((a, b)) => format!("Invoke:{}:{}", a, b),
    S::SuperInvoke((a, b)) => format!("SuperInvoke:{}:{}", a, b),
    S::Closure(a) => format!("Closure:{}", a),
    S::Method(a) => format!("Method:{}", a),
    S::Field(a) => format!("Field:{}", a),
    S::StaticMethod(a) => format!("StaticMethod:{}", a),
    S::Class(a) => format!("Class:{}", a),
    S::GetSuper(a) => format!("GetSuper:{}", a),
    S::CaptureIndex(CaptureIndex::Local(a)) => format!("CaptureLocal:{}", a),
    S::CaptureIndex(CaptureIndex::Enclosing(a)) => format!("CaptureEnclosing:{}", a),
    other => format!("{:?}", other),
  }
}

fn main() {
  std::panic::set_hook(Box::new(|_| {}));
  let stdin = std::io::stdin();
  let stdout = std::io::stdout();
  let mut out = std::io::BufWriter::new(stdout.lock());
  for line in stdin.lock().lines() {
    let line = line.unwrap();
    let line = line.trim();
    if line.is_empty() {
      writeln!(out, "|").unwrap();
      continue;
    }
    let mut code = vec![];
    let mut bad = None;
    for tok in line.split(';') {
      match parse(tok) {
        Ok(i) => code.push(i),
        Err(e) => {
          bad = Some(e);
          break;
        },
      }
    }
    if let Some(e) = bad {
      writeln!(out, "ERR {}", e).unwrap();
      continue;
    }
    let lines: Vec<u16> = (0..code.len() as u16).collect();
    let result = std::panic::catch_unwind(move || peephole(code, lines));
    match result {
      Ok((code, lines)) => {
        let c: Vec<String> = code.iter().map(show).collect();
        let l: Vec<String> = lines.iter().map(|l| l.to_string()).collect();
        writeln!(out, "{}|{}", c.join(";"), l.join(",")).unwrap();
      },
      Err(_) => writeln!(out, "PANIC").unwrap(),
    }
  }
}
