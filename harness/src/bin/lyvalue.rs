//! lyvalue: push numbers (bit patterns reachable by arithmetic), booleans, nil
//! and objects through `Value` in the representation this binary was built
//! with and report every broken round-trip / IEEE expectation, plus a digest
//! of all observations so two builds can be compared.

use laythe_core::{
  hooks::{GcHooks, NoContext},
  object::ObjectKind,
  val,
  value::{Value, ValueKind, VALUE_NIL, VALUE_UNDEFINED},
};
use std::collections::hash_map::DefaultHasher;
use std::hash::{Hash, Hasher};

struct Rng(u64);
impl Rng {
  fn next(&mut self) -> u64 {
    let mut x = self.0;
    x ^= x >> 12;
    x ^= x << 25;
    x ^= x >> 27;
    self.0 = x;
    x.wrapping_mul(0x2545_F491_4F6C_DD1D)
  }
}

fn h(v: &Value) -> u64 {
  let mut s = DefaultHasher::new();
  v.hash(&mut s);
  s.finish()
}

fn main() {
  let args: Vec<String> = std::env::args().collect();
  let seed: u64 = args.get(1).and_then(|s| s.parse().ok()).unwrap_or(1);
  let n: usize = args.get(2).and_then(|s| s.parse().ok()).unwrap_or(200_000);
  let mut rng = Rng(seed.wrapping_mul(0x9E37_79B9_7F4A_7C15) | 1);
  let mut problems: Vec<String> = vec![];
  let mut digest: u64 = 0xcbf2_9ce4_8422_2325;
  let mut mix = |x: u64| {
    digest ^= x;
    digest = digest.wrapping_mul(0x100_0000_01b3);
  };

  let zoo: Vec<f64> = vec![
    0.0, -0.0, 1.0, -1.0, 0.5, 2.0, 1e308, -1e308, 5e-324, -5e-324, 2.2250738585072014e-308,
    f64::INFINITY, f64::NEG_INFINITY, f64::NAN, -f64::NAN, f64::MAX, f64::MIN, f64::EPSILON,
    9007199254740992.0, 9007199254740993.0, 0.1, 0.2, 0.30000000000000004, 1e21, 1e-7, 255.0, 256.0, 65535.0,
    65536.0, 4294967296.0, 1.7976931348623157e308,
  ];
  let mut values: Vec<f64> = zoo.clone();
  // everything reachable from the zoo by one or two arithmetic steps
  for a in &zoo {
    for b in &zoo {
      values.push(a + b);
      values.push(a - b);
      values.push(a * b);
      values.push(a / b);
    }
    values.push(-a);
    values.push(a.floor());
    values.push(a.ceil());
    values.push(a.round());
  }
  // random finite doubles and random arithmetic over them (never raw NaN payloads:
  // those are not reachable by arithmetic)
  let mut count = 0usize;
  while count < n {
    let bits = rng.next();
    let x = f64::from_bits(bits);
    if x.is_nan() {
      continue;
    }
    let y = f64::from_bits(rng.next());
    values.push(x);
    if !y.is_nan() {
      values.push(x / y);
      values.push(x * y);
      values.push(x - y);
    }
    count += 1;
  }

  let mut nums = 0u64;
  for x in &values {
    let x = *x;
    let v = val!(x);
    nums += 1;
    if !v.is_num() || v.is_nil() || v.is_bool() || v.is_obj() || v.is_undefined() {
      problems.push(format!("number {:e} ({:#x}) misclassified", x, x.to_bits()));
      continue;
    }
    if v.kind() != ValueKind::Number {
      problems.push(format!("number {:e} has kind {:?}", x, v.kind()));
    }
    let back = v.to_num();
    if x.is_nan() {
      if !back.is_nan() {
        problems.push(format!("NaN came back as {:e}", back));
      }
      if v == v {
        problems.push("NaN value equals itself".to_string());
      }
    } else {
      if back.to_bits() != x.to_bits() {
        problems.push(format!("{:e} ({:#x}) came back as {:#x}", x, x.to_bits(), back.to_bits()));
      }
      if v != val!(x) {
        problems.push(format!("{:e} does not equal itself", x));
      }
      if x == 0.0 {
        let z = val!(0.0);
        let nz = val!(-0.0);
        if z != nz || h(&z) != h(&nz) {
          problems.push("0 and -0 differ as values or hash differently".to_string());
        }
      }
      if h(&v) != h(&val!(x)) {
        problems.push(format!("{:e} hashes inconsistently", x));
      }
    }
    if v == VALUE_NIL || v == val!(true) || v == val!(false) || v == VALUE_UNDEFINED {
      problems.push(format!("number {:e} equals a non number", x));
    }
    mix(back.to_bits() ^ if x.is_nan() { 1 } else { 0 });
    mix((v == v) as u64);
  }

  // booleans, nil, undefined
  for b in [true, false] {
    let v = val!(b);
    if !v.is_bool() || v.is_num() || v.is_nil() || v.is_obj() || v.to_bool() != b || v.kind() != ValueKind::Bool {
      problems.push(format!("bool {} does not round trip", b));
    }
    if v.is_false() == b {
      problems.push(format!("is_false wrong for {}", b));
    }
  }
  if !VALUE_NIL.is_nil() || VALUE_NIL.is_num() || VALUE_NIL.is_bool() || VALUE_NIL.is_obj() || VALUE_NIL.kind() != ValueKind::Nil {
    problems.push("nil does not round trip".to_string());
  }
  if !VALUE_UNDEFINED.is_undefined() || VALUE_UNDEFINED.is_nil() || VALUE_UNDEFINED.is_num() || VALUE_UNDEFINED != VALUE_UNDEFINED {
    problems.push("undefined does not round trip".to_string());
  }
  if val!(true) == val!(false) || VALUE_NIL == val!(false) || VALUE_NIL == VALUE_UNDEFINED || val!(0.0) == val!(false) {
    problems.push("distinct primitives compare equal".to_string());
  }

  // objects of several kinds
  let context = NoContext::default();
  let hooks = GcHooks::new(&context);
  let mut objs = 0u64;
  for i in 0..2000 {
    let s = hooks.manage_str(format!("string number {}", i));
    let v = val!(s);
    objs += 1;
    if !v.is_obj() || v.is_num() || v.is_nil() || v.is_bool() || v.kind() != ValueKind::Obj {
      problems.push("string object misclassified".to_string());
      break;
    }
    if !v.is_obj_kind(ObjectKind::String) || v.to_obj().kind() != ObjectKind::String {
      problems.push("string object has the wrong object kind".to_string());
      break;
    }
    if &*v.to_obj().to_str() != format!("string number {}", i).as_str() {
      problems.push("string object does not come back".to_string());
      break;
    }
    if v != val!(s) || h(&v) != h(&val!(s)) {
      problems.push("string object unequal to itself".to_string());
      break;
    }
    let items = [val!(i as f64), v];
    let l = hooks.manage_obj(laythe_core::list!(&items));
    let lv = val!(l);
    if !lv.is_obj_kind(ObjectKind::List) || lv.to_obj().to_list().len() != 2 || lv == v {
      problems.push("list object does not round trip".to_string());
      break;
    }
    let t = hooks.manage_obj(laythe_core::object::LyBox::new(lv));
    let tv = val!(t);
    if !tv.is_obj_kind(ObjectKind::LyBox) || tv.to_obj().to_box().value != lv {
      problems.push("box object does not round trip".to_string());
      break;
    }
  }

  println!(
    "{{\"numbers\":{},\"objects\":{},\"digest\":\"{:016x}\",\"problems\":[{}]}}",
    nums,
    objs,
    digest,
    problems
      .iter()
      .take(20)
      .map(|p| format!("\"{}\"", p.replace('"', "'")))
      .collect::<Vec<_>>()
      .join(",")
  );
}
