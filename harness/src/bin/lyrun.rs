//! lyrun: run one Laythe program (or a REPL session read from stdin) in a
//! fresh Vm with the monitoring hooks configured from the command line and
//! print one `VERIF-STATS {json}` line on stderr when the Vm returns.
//!
//! A crash (panic, abort, signal) leaves no stats line; the supervising
//! python driver classifies those by exit status and stderr.

use laythe_core::verif as cv;
use laythe_native::io::io_native;
use laythe_vm::verif as vv;
use laythe_vm::vm::Vm;
use std::fs::{read_to_string, File};
use std::io::{BufWriter, Write};
use std::path::PathBuf;
use std::sync::atomic::Ordering::Relaxed;

#[path = "../halloc.rs"]
mod halloc;

#[cfg(not(feature = "sysalloc"))]
#[global_allocator]
static GLOBAL: halloc::Harness = halloc::Harness;

fn esc(s: &str) -> String {
  let mut out = String::from("\"");
  for c in s.chars() {
    match c {
      '"' => out.push_str("\\\""),
      '\\' => out.push_str("\\\\"),
      '\n' => out.push_str("\\n"),
      c if (c as u32) < 0x20 => out.push_str(&format!("\\u{:04x}", c as u32)),
      c => out.push(c),
    }
  }
  out.push('"');
  out
}

fn list(items: &[String]) -> String {
  format!("[{}]", items.iter().map(|s| esc(s)).collect::<Vec<_>>().join(","))
}

fn main() {
  let args: Vec<String> = std::env::args().skip(1).collect();
  let mut file: Option<String> = None;
  let mut repl = false;
  let mut final_gc = false;
  let mut leak_check = false;
  let mut size_check = false;
  let mut alloc_mode = halloc::MODE_PLAIN;
  let mut i = 0;
  while i < args.len() {
    let a = args[i].as_str();
    let mut next = || {
      i += 1;
      args.get(i).cloned().unwrap_or_else(|| {
        eprintln!("lyrun: missing value for {}", a);
        std::process::exit(98)
      })
    };
    match a {
      "--gc" => {
        let v = next();
        let parts: Vec<&str> = v.split(':').collect();
        match parts[0] {
          "stock" => cv::GC_MODE.store(0, Relaxed),
          "never" => {
            cv::GC_MODE.store(0, Relaxed);
            cv::GC_NO_STOCK.store(true, Relaxed);
          },
          "every" => {
            cv::GC_MODE.store(1, Relaxed);
            cv::GC_K.store(parts[1].parse().unwrap(), Relaxed);
          },
          "bern" => {
            cv::GC_MODE.store(2, Relaxed);
            let p: f64 = parts[1].parse().unwrap();
            cv::GC_P.store((p * 65536.0) as u64, Relaxed);
            let seed: u64 = parts.get(2).map(|s| s.parse().unwrap()).unwrap_or(1);
            cv::GC_RNG.store(seed.wrapping_mul(0x9E37_79B9_7F4A_7C15) | 1, Relaxed);
          },
          "points" => {
            cv::GC_MODE.store(3, Relaxed);
            cv::set_points(
              parts[1]
                .split(',')
                .filter(|s| !s.is_empty())
                .map(|s| s.parse().unwrap())
                .collect(),
            );
          },
          other => {
            eprintln!("lyrun: bad --gc {}", other);
            std::process::exit(98)
          },
        }
      },
      "--no-stock" => cv::GC_NO_STOCK.store(true, Relaxed),
      "--sweep" => {
        let v = next();
        cv::SWEEP_MODE.store(
          match v.as_str() {
            "stock" => 0,
            "full" => 1,
            "nursery" => 2,
            "alt" => 3,
            _ => {
              eprintln!("lyrun: bad --sweep");
              std::process::exit(98)
            },
          },
          Relaxed,
        )
      },
      "--cache-off" => vv::CACHE_OFF.store(true, Relaxed),
      "--steps" => vv::STEP_BUDGET.store(next().parse().unwrap(), Relaxed),
      "--stack-monitor" => vv::STACK_MONITOR.store(true, Relaxed),
      "--intern-check" => cv::CHECK_INTERN.store(true, Relaxed),
      "--snapshots" => cv::SNAPSHOT.store(true, Relaxed),
      "--sched-trace" => vv::SCHED_TRACE.store(true, Relaxed),
      "--final-gc" => final_gc = true,
      "--leak-check" => leak_check = true,
      "--size-check" => size_check = true,
      "--dump" => {
        let path = next();
        let f = File::create(&path).expect("cannot create dump file");
        vv::set_dump_sink(Some(Box::new(BufWriter::new(f))));
      },
      "--alloc" => {
        alloc_mode = match next().as_str() {
          "plain" => halloc::MODE_PLAIN,
          "track" => halloc::MODE_TRACK,
          "quarantine" => halloc::MODE_QUARANTINE,
          "reuse" => halloc::MODE_REUSE,
          _ => {
            eprintln!("lyrun: bad --alloc");
            std::process::exit(98)
          },
        }
      },
      "--repl" => repl = true,
      _ if a.starts_with("--") => {
        eprintln!("lyrun: unknown option {}", a);
        std::process::exit(98)
      },
      _ => file = Some(a.to_string()),
    }
    i += 1;
  }

  let source = match (&file, repl) {
    (Some(f), false) => match read_to_string(f) {
      Ok(s) => Some(s),
      Err(e) => {
        eprintln!("lyrun: {}", e);
        std::process::exit(98)
      },
    },
    (None, true) => None,
    _ => {
      eprintln!("usage: lyrun [options] (FILE | --repl)");
      std::process::exit(98)
    },
  };

  let base_blocks = halloc::LIVE_BLOCKS.load(Relaxed);
  let base_bytes = halloc::LIVE_BYTES.load(Relaxed);
  halloc::MODE.store(alloc_mode, Relaxed);
  let track_base_blocks = halloc::LIVE_BLOCKS.load(Relaxed);
  let track_base_bytes = halloc::LIVE_BYTES.load(Relaxed);
  let _ = (base_blocks, base_bytes);

  let mut vm = Vm::new(io_native());
  let (code, exit) = match source {
    Some(source) => vm.run(PathBuf::from(file.unwrap()), &source),
    None => vm.repl(),
  };

  let mut final_freed: Vec<u64> = vec![];
  if final_gc {
    // two forced full collections: the second one must free nothing
    cv::SWEEP_MODE.store(1, Relaxed);
    cv::SNAPSHOT.store(true, Relaxed);
    for _ in 0..2 {
      let before = cv::OBJS_FREED.load(Relaxed);
      vm.verif_collect();
      final_freed.push(cv::OBJS_FREED.load(Relaxed) - before);
    }
  }

  let mut size_violations: Vec<String> = vec![];
  let mut sizes_checked = 0u64;
  if size_check && alloc_mode != halloc::MODE_PLAIN {
    let (objects, others) = vm.verif_objects();
    for (address, size, kind) in objects {
      sizes_checked += 1;
      match halloc::lookup(address) {
        Some((real, _)) if real == size => (),
        Some((real, _)) => {
          if size_violations.len() < 8 {
            size_violations.push(format!(
              "size: object of kind {} reports {} bytes, its block has {}",
              kind, size, real
            ))
          }
        },
        None => {
          if size_violations.len() < 8 {
            size_violations.push(format!("size: object of kind {} is not a live block", kind))
          }
        },
      }
    }
    for (address, size) in others {
      sizes_checked += 1;
      match halloc::lookup(address) {
        Some((real, _)) if real == size => (),
        Some((real, _)) => {
          if size_violations.len() < 8 {
            size_violations.push(format!(
              "size: managed allocation reports {} bytes, its block has {}",
              size, real
            ))
          }
        },
        None => {
          if size_violations.len() < 8 {
            size_violations.push("size: managed allocation is not a live block".to_string())
          }
        },
      }
    }
  }

  let heap_bytes = vm.verif_allocated();
  let temp_roots = vm.verif_temp_roots();
  let live_before_drop = (halloc::LIVE_BLOCKS.load(Relaxed), halloc::LIVE_BYTES.load(Relaxed));

  let mut leak = (0isize, 0isize);
  if leak_check {
    vv::set_dump_sink(None);
    drop(vm);
    leak = (
      halloc::LIVE_BLOCKS.load(Relaxed) as isize - track_base_blocks as isize,
      halloc::LIVE_BYTES.load(Relaxed) as isize - track_base_bytes as isize,
    );
  } else {
    std::mem::forget(vm);
  }
  if alloc_mode == halloc::MODE_QUARANTINE {
    halloc::drain_quarantine();
  }

  let mut violations = cv::take_violations();
  violations.extend(vv::take_violations());
  violations.extend(size_violations);

  let snapshots = cv::take_snapshots();
  let snap_json: Vec<String> = snapshots
    .iter()
    .map(|s| {
      format!(
        "[{},{},{},{},{},{},{},{},{},{},{},[{}]]",
        s.gc_count,
        s.full as u8,
        s.bytes_allocated,
        s.next_gc,
        s.sum_sizes,
        s.heap_len,
        s.obj_heap_len,
        s.nursery_len,
        s.intern_len,
        s.live_strings,
        s.temp_roots,
        s.kinds.iter().map(|k| k.to_string()).collect::<Vec<_>>().join(",")
      )
    })
    .collect();

  let ops: Vec<String> = vv::op_counts()
    .into_iter()
    .filter(|(_, c)| *c > 0)
    .map(|(n, c)| format!("{}:{}", esc(&n), c))
    .collect();

  let sched = vv::take_sched_trace();

  let mut out = String::new();
  out.push_str(&format!(
    "{{\"exit\":{},\"vm_exit\":{},\"allocs\":{},\"collections\":{},\"full_sweeps\":{},\"nursery_sweeps\":{},\"objs_freed\":{},",
    code,
    esc(&format!("{:?}", exit)),
    cv::ALLOCS.load(Relaxed),
    cv::COLLECTIONS.load(Relaxed),
    cv::FULL_SWEEPS.load(Relaxed),
    cv::NURSERY_SWEEPS.load(Relaxed),
    cv::OBJS_FREED.load(Relaxed),
  ));
  out.push_str(&format!(
    "\"intern_checks\":{},\"intern_strings\":{},\"steps\":{},\"stack_checks\":{},\"handler_pushes\":{},\"max_depth\":{},",
    cv::INTERN_CHECKS.load(Relaxed),
    cv::INTERN_STRINGS_SEEN.load(Relaxed),
    vv::STEPS.load(Relaxed),
    vv::STACK_CHECKS.load(Relaxed),
    vv::HANDLER_PUSHES.load(Relaxed),
    vv::MAX_DEPTH_SEEN.load(Relaxed),
  ));
  out.push_str(&format!(
    "\"prop_hits\":{},\"prop_misses\":{},\"prop_fills\":{},\"prop_clears\":{},\"inv_hits\":{},\"inv_misses\":{},\"inv_fills\":{},\"inv_clears\":{},",
    vv::PROPERTY_HITS.load(Relaxed),
    vv::PROPERTY_MISSES.load(Relaxed),
    vv::PROPERTY_FILLS.load(Relaxed),
    vv::PROPERTY_CLEARS.load(Relaxed),
    vv::INVOKE_HITS.load(Relaxed),
    vv::INVOKE_MISSES.load(Relaxed),
    vv::INVOKE_FILLS.load(Relaxed),
    vv::INVOKE_CLEARS.load(Relaxed),
  ));
  out.push_str(&format!(
    "\"switches\":{},\"queued\":{},\"deadlocks\":{},\"heap_bytes\":{},\"temp_roots\":{},\"sizes_checked\":{},",
    vv::CONTEXT_SWITCHES.load(Relaxed),
    vv::FIBERS_QUEUED.load(Relaxed),
    vv::DEADLOCKS.load(Relaxed),
    heap_bytes,
    temp_roots,
    sizes_checked,
  ));
  out.push_str(&format!(
    "\"h_live_blocks\":{},\"h_live_bytes\":{},\"h_peak_bytes\":{},\"h_total_allocs\":{},\"h_layout_mismatches\":{},\"h_poison_damage\":{},\"h_reused\":{},\"h_table_full\":{},\"leak_blocks\":{},\"leak_bytes\":{},",
    live_before_drop.0,
    live_before_drop.1,
    halloc::PEAK_BYTES.load(Relaxed),
    halloc::TOTAL_ALLOCS.load(Relaxed),
    halloc::LAYOUT_MISMATCHES.load(Relaxed),
    halloc::POISON_DAMAGE.load(Relaxed),
    halloc::REUSED.load(Relaxed),
    halloc::TABLE_FULL.load(Relaxed),
    leak.0,
    leak.1,
  ));
  out.push_str(&format!(
    "\"final_freed\":[{}],\"violations\":{},\"snapshots\":[{}],\"ops\":{{{}}},\"sched\":{}}}",
    final_freed.iter().map(|f| f.to_string()).collect::<Vec<_>>().join(","),
    list(&violations),
    snap_json.join(","),
    ops.join(","),
    list(&sched),
  ));

  let _ = std::io::stdout().flush();
  eprintln!("\nVERIF-STATS {}", out);
  std::process::exit(code);
}
